package main

// rules_grd.go — GRD: guard-dominates-effect rules (no arithmetic reasoning).

import (
	"fmt"
	"go/constant"
	"go/token"
	"go/types"
	"os"
	"strings"

	"golang.org/x/tools/go/ssa"
)

// condEdges: for a boolean SSA value v, the CFG edges taken when v is true / false (through `if v`
// and `if !v`).
func condEdges(v ssa.Value) (whenTrue, whenFalse []edgeKey) {
	refs := v.Referrers()
	if refs == nil {
		return
	}
	for _, ref := range *refs {
		switch x := ref.(type) {
		case *ssa.If:
			whenTrue = append(whenTrue, edgeKey{x.Block(), 0})
			whenFalse = append(whenFalse, edgeKey{x.Block(), 1})
		case *ssa.UnOp:
			if x.Op == token.NOT {
				f, t := condEdges(x)
				whenTrue = append(whenTrue, t...)
				whenFalse = append(whenFalse, f...)
			}
		case *ssa.BinOp:
			// v == true / v != false keep the sense, v == false / v != true invert it
			if (x.Op == token.EQL || x.Op == token.NEQ) && isBoolType(v.Type()) {
				other := x.Y
				if other == v {
					other = x.X
				}
				if c, ok := other.(*ssa.Const); ok && c.Value != nil && c.Value.Kind() == constant.Bool {
					same := constant.BoolVal(c.Value) == (x.Op == token.EQL)
					t, f := condEdges(x)
					if same {
						whenTrue = append(whenTrue, t...)
						whenFalse = append(whenFalse, f...)
					} else {
						whenTrue = append(whenTrue, f...)
						whenFalse = append(whenFalse, t...)
					}
				}
			}
		case *ssa.Phi:
			// `a && b` lowers to a phi of (false, b): handle the common shape where the phi only
			// merges this value with boolean constants.
			onlyConsts := true
			for _, e := range x.Edges {
				if e == v {
					continue
				}
				if c, ok := e.(*ssa.Const); !ok || c.Value == nil {
					onlyConsts = false
				}
			}
			if onlyConsts {
				t, f := condEdges(x)
				// when v is true the phi is true only if it came through v's edge; being conservative:
				// phi true ⇒ v true (the other edges are the constant false of &&) — usable for whenTrue;
				whenTrue = append(whenTrue, t...)
				_ = f
			}
		}
	}
	return
}

// mustPassGuard: every path that reaches `target` has executed an instruction matching `guard` and left
// it on the edge where the guard's boolean result equals `want`. `assume` blocks edges that are outside
// the scenario analysed (e.g. "no allow-list given").
func mustPassGuard(fn *ssa.Function, target func(ssa.Instruction) bool, guard func(ssa.Instruction) bool, guardVal func(ssa.Instruction) ssa.Value, want bool, assume map[edgeKey]bool) (bool, []ssa.Instruction) {
	return mustPassGuard2(fn, target, guard, guardVal, want, assume, nil)
}

// mustPassGuard2: entryOnly edges are blocked only for the "reaches the target without ever evaluating the
// guard" query (e.g. the zero-iteration exit of a loop that is known to run at least once); they stay open
// for the "left the guard on the wrong edge" queries, where a later loop exit is a real path.
func mustPassGuard2(fn *ssa.Function, target func(ssa.Instruction) bool, guard func(ssa.Instruction) bool, guardVal func(ssa.Instruction) ssa.Value, want bool, assume, entryOnly map[edgeKey]bool) (bool, []ssa.Instruction) {
	if found, wit := (pathQuery{fn: fn, target: target, avoid: guard, blocked: mergeEdges(assume, entryOnly)}).find(entryPos(fn)); found {
		return false, wit
	}
	for _, g := range findInstrs(fn, guard) {
		v := guardVal(g)
		if v == nil {
			continue
		}
		t, f := condEdges(v)
		bad := f
		if !want {
			bad = t
		}
		if len(t)+len(f) == 0 {
			// the guard's result is not branched on: it guards nothing
			if found, wit := (pathQuery{fn: fn, target: target, avoid: func(in ssa.Instruction) bool { return in != g && guard(in) }, blocked: assume}).find(posOf(g)); found {
				return false, append([]ssa.Instruction{g}, wit...)
			}
			continue
		}
		for _, e := range bad {
			if assume[e] {
				continue
			}
			if found, wit := (pathQuery{fn: fn, target: target, avoid: guard, blocked: assume}).find(ipos{e.from.Succs[e.succ], -1}); found {
				return false, append([]ssa.Instruction{g}, wit...)
			}
		}
		// the guard was evaluated, but is the target reached before its result is branched on at all?
		// (a test that only happens after the effect guards nothing.) Every path from the guard to the
		// target must take one of the wanted edges.
		good := t
		if !want {
			good = f
		}
		if len(good) > 0 {
			blk := map[edgeKey]bool{}
			for k, v := range assume {
				blk[k] = v
			}
			for _, e := range good {
				blk[e] = true
			}
			gg := g
			if found, wit := (pathQuery{fn: fn, target: target, avoid: func(in ssa.Instruction) bool { return in != gg && guard(in) }, blocked: blk}).find(posOf(g)); found {
				return false, append([]ssa.Instruction{g}, wit...)
			}
		}
	}
	return true, nil
}

func callValue(in ssa.Instruction) ssa.Value {
	if c, ok := in.(*ssa.Call); ok {
		return c
	}
	return nil
}

// isMethodCall matches a call to pkgPath.(Type).Method for any package (module or dependency).
func isMethodCall(in ssa.Instruction, pkgSuffix, name string) bool {
	c, ok := in.(*ssa.Call)
	if !ok {
		return false
	}
	o := calleeObj(&c.Call)
	if o == nil || o.Pkg() == nil || !strings.HasSuffix(o.Pkg().Path(), pkgSuffix) {
		return false
	}
	return shortName(o) == name
}

// fieldOfRecv: the call's receiver is (the address of) field `field` of some struct value.
func recvIsField(c *ssa.Call, field string) bool {
	if len(c.Call.Args) == 0 {
		return false
	}
	fa, ok := c.Call.Args[0].(*ssa.FieldAddr)
	if !ok {
		return false
	}
	pt, ok := fa.X.Type().Underlying().(*types.Pointer)
	if !ok {
		return false
	}
	_, ok = pt.Elem().Underlying().(*types.Struct)
	return ok && fieldNameAt(pt.Elem(), fa.Field) == field
}

// allowListAssumption: block the edges taken when no (or an empty) allow-list is present, so the
// analysed scenario is "an allow-list was supplied".
func allowListAssumption(fn *ssa.Function) map[edgeKey]bool { return allowListEdges(fn, true) }

// bitmapNonNilAssumption blocks only the edges taken when a *roaring.Bitmap is nil.
func bitmapNonNilAssumption(fn *ssa.Function) map[edgeKey]bool { return allowListEdges(fn, false) }

func allowListEdges(fn *ssa.Function, alsoEmpty bool) map[edgeKey]bool {
	out := map[edgeKey]bool{}
	// "is there a list to respect" decided once and kept in a flag (`filtered := list != nil && !list.IsEmpty()`): a
	// branch on the flag has a no-list edge too
	var present func(v ssa.Value, depth int) bool
	present = func(v ssa.Value, depth int) bool {
		if depth > 4 {
			return false
		}
		switch x := v.(type) {
		case *ssa.Phi:
			some := false
			for _, e := range x.Edges {
				if c, ok := e.(*ssa.Const); ok && c.Value != nil && c.Value.Kind() == constant.Bool && !constant.BoolVal(c.Value) {
					continue
				}
				if !present(e, depth+1) {
					return false
				}
				some = true
			}
			return some
		case *ssa.UnOp:
			if x.Op == token.NOT {
				if c, ok := x.X.(*ssa.Call); ok && alsoEmpty && isMethodCall(c, "RoaringBitmap/roaring", "Bitmap.IsEmpty") {
					return true
				}
			}
		case *ssa.BinOp:
			if x.Op == token.NEQ && (isNilConst(x.X) || isNilConst(x.Y)) {
				other := x.X
				if isNilConst(other) {
					other = x.Y
				}
				return strings.HasSuffix(other.Type().String(), "roaring.Bitmap")
			}
		}
		return false
	}
	for _, b := range fn.Blocks {
		iff, ok := b.Instrs[len(b.Instrs)-1].(*ssa.If)
		if !ok {
			continue
		}
		if _, isPhi := iff.Cond.(*ssa.Phi); isPhi && present(iff.Cond, 0) {
			out[edgeKey{b, 1}] = true // flag false: no list
		}
		if u, isNot := iff.Cond.(*ssa.UnOp); isNot && u.Op == token.NOT {
			if _, isPhi := u.X.(*ssa.Phi); isPhi && present(u.X, 0) {
				out[edgeKey{b, 0}] = true
			}
		}
	}
	for _, b := range fn.Blocks {
		for _, in := range b.Instrs {
			switch x := in.(type) {
			case *ssa.BinOp:
				if (x.Op == token.NEQ || x.Op == token.EQL) && (isNilConst(x.X) || isNilConst(x.Y)) {
					other := x.X
					if isNilConst(other) {
						other = x.Y
					}
					if strings.HasSuffix(other.Type().String(), "roaring.Bitmap") {
						t, f := condEdges(x)
						nilEdges := f
						if x.Op == token.EQL {
							nilEdges = t
						}
						for _, e := range nilEdges {
							out[e] = true
						}
					}
				}
			case *ssa.Call:
				if alsoEmpty && isMethodCall(x, "RoaringBitmap/roaring", "Bitmap.IsEmpty") {
					t, _ := condEdges(x)
					for _, e := range t {
						out[e] = true
					}
				}
			}
		}
	}
	return out
}

// ---------- C06: admission, cap, order, translation, scope ----------

func ruleGRDadmit(w *World, r *Report) {
	r.Doc("GRD-admit", "every push onto the result heap of the layer search is guarded by the not-Deleted test and, when an allow-list is present, by the membership test", 2)
	fi := w.Func("pkg/core/hnsw", "Index.searchLayerUnlocked")
	if fi == nil {
		r.Und("GRD-admit", "anchor:Index.searchLayerUnlocked", "", "anchor lost")
		return
	}
	fn := w.SSAFunc(fi.Obj)
	isPush := func(in ssa.Instruction) bool { return isMethodCall(in, "pkg/core/hnsw", "maxHeap.Push") }
	pushes := findInstrs(fn, isPush)
	if len(pushes) == 0 {
		r.Und("GRD-admit", "anchor:results.Push", w.Pos(fi.Decl.Pos()), "no push onto a maxHeap result set found in the layer search")
		return
	}
	deletedLoad := func(in ssa.Instruction) bool {
		c, ok := in.(*ssa.Call)
		if !ok {
			return false
		}
		o := calleeObj(&c.Call)
		return o != nil && o.Pkg() != nil && o.Pkg().Path() == "sync/atomic" && shortName(o) == "Bool.Load" && recvIsField(c, "Deleted")
	}
	rawContains := func(in ssa.Instruction) bool { return isMethodCall(in, "RoaringBitmap/roaring", "Bitmap.Contains") }
	// the membership test written as a predicate of its own: a function of the package that takes the bitmap, answers a
	// bool, and — with a list present — answers yes only through Contains (or answers Contains itself)
	admits := map[*ssa.Function]bool{}
	isAdmitHelper := func(h *ssa.Function) bool {
		if known, seen := admits[h]; seen {
			return known
		}
		ok := false
		if h != nil && h.Pkg == fn.Pkg && len(h.Blocks) > 0 && h.Signature.Results().Len() == 1 && isBoolType(h.Signature.Results().At(0).Type()) && len(findInstrs(h, rawContains)) > 0 {
			yes := func(in ssa.Instruction) bool {
				rt, isRet := in.(*ssa.Return)
				if !isRet {
					return false
				}
				v := retVal(rt, 0)
				if c, isC := v.(*ssa.Const); isC && c.Value != nil && c.Value.Kind() == constant.Bool && !constant.BoolVal(c.Value) {
					return false
				}
				if vc, isCall := v.(*ssa.Call); isCall && rawContains(vc) {
					return false // `return list.Contains(id)`: the answer is the membership
				}
				return true
			}
			ok, _ = mustPassGuard(h, yes, rawContains, callValue, true, allowListAssumption(h))
		}
		admits[h] = ok
		return ok
	}
	contains := func(in ssa.Instruction) bool {
		if rawContains(in) {
			return true
		}
		c, ok := in.(*ssa.Call)
		return ok && isAdmitHelper(c.Call.StaticCallee())
	}
	assume := allowListAssumption(fn)
	for i, p := range pushes {
		pp := p
		tgt := func(in ssa.Instruction) bool { return in == pp }
		ok, wit := mustPassGuard(fn, tgt, deletedLoad, callValue, false, nil)
		r.Cond(ok, "GRD-admit", fmt.Sprintf("searchLayerUnlocked:push#%d:not-deleted", i+1), w.Pos(p.Pos()), "push is reached only through the Deleted==false edge", "a node can be pushed onto the result heap without passing the not-Deleted test: soft-deleted vectors are returned by search", w.witness(wit)...)
		ok, wit = mustPassGuard(fn, tgt, contains, callValue, true, assume)
		r.Cond(ok, "GRD-admit", fmt.Sprintf("searchLayerUnlocked:push#%d:allow-listed", i+1), w.Pos(p.Pos()), "with an allow-list present the push is reached only through the Contains==true edge", "with a filter/graph-scope allow-list present a node can be pushed onto the result heap without the membership test: search returns ids outside the filter", w.witness(wit)...)
	}
	// the result set handed back is popped from that heap only
	r.Count("result_pushes", len(pushes))
}

// usesParam: value v is (a conversion of) parameter named name, or len() of something compared to it.
// paramFieldRead: v reads field `name` of a struct-typed parameter of its function (`p.k` where the arguments travel in
// a parameter record `p fusionParams`): the field plays the part of the parameter of that name.
func paramFieldRead(v ssa.Value, name string) bool {
	var base ssa.Value
	switch x := v.(type) {
	case *ssa.Field:
		if _, f := structFieldName(x.X.Type(), x.Field); f != name {
			return false
		}
		base = x.X
	case *ssa.UnOp:
		fa, ok := x.X.(*ssa.FieldAddr)
		if !ok || x.Op != token.MUL {
			return false
		}
		if _, f := structFieldName(fa.X.Type(), fa.Field); f != name {
			return false
		}
		base = fa.X
	default:
		return false
	}
	return paramRecordBase(base) != nil
}

// paramRecordBase: base is a struct-typed (or pointer-to-struct) parameter, or the local cell such a parameter was
// spilled to (its address is taken as soon as a field is assigned or a closure captures it).
func paramRecordBase(base ssa.Value) *ssa.Parameter {
	if fv, ok := base.(*ssa.FreeVar); ok {
		base = freeVarBinding(fv)
	}
	switch b := base.(type) {
	case *ssa.Parameter:
		return b
	case *ssa.UnOp:
		if b.Op == token.MUL {
			return paramRecordBase(b.X)
		}
	case *ssa.Alloc:
		for _, st := range cellStores(b) {
			if p, ok := st.Val.(*ssa.Parameter); ok {
				return p
			}
		}
	}
	return nil
}

func mentionsParam(v ssa.Value, name string, depth int) bool {
	if depth > 4 || v == nil {
		return false
	}
	if paramFieldRead(v, name) {
		return true
	}
	switch x := v.(type) {
	case *ssa.Parameter:
		return x.Name() == name
	case *ssa.Convert:
		return mentionsParam(x.X, name, depth+1)
	case *ssa.Phi:
		for _, e := range x.Edges {
			if mentionsParam(e, name, depth+1) {
				return true
			}
		}
	case *ssa.UnOp:
		if al, ok := x.X.(*ssa.Alloc); ok {
			for _, ref := range *al.Referrers() {
				if st, ok := ref.(*ssa.Store); ok && st.Addr == al && mentionsParam(st.Val, name, depth+1) {
					return true
				}
			}
		}
	}
	return false
}

func ruleGRDcap(w *World, r *Report) {
	r.Doc("GRD-cap", "every return of a result list from the search entry points passes a comparison of the result count with the caller's k/limit", 2)
	specs := []struct{ pkg, fn, param string }{
		{"pkg/core/hnsw", "Index.searchLayerUnlocked", "k"},
		{"pkg/engine", "Engine.searchWithFusion", "k"},
		{"pkg/engine", "Engine.VFilter", "limit"},
	}
	for _, s := range specs {
		fi := w.Func(s.pkg, s.fn)
		if fi == nil {
			r.Und("GRD-cap", "anchor:"+s.fn, "", "anchor lost")
			continue
		}
		top := w.SSAFunc(fi.Obj)
		if p := paramNamed(top, s.param, 0, isPlainInt); p != nil && !hasParamRecordField(top, s.param) {
			s.param = p.Name() // the limit is the first int parameter, whatever it is called
		}
		var uncapped func(fn *ssa.Function, param string, depth int) (bool, []ssa.Instruction)
		uncapped = func(fn *ssa.Function, param string, depth int) (bool, []ssa.Instruction) {
			capCmp := func(in ssa.Instruction) bool {
				bo, ok := in.(*ssa.BinOp)
				if !ok {
					return false
				}
				switch bo.Op {
				case token.GTR, token.GEQ, token.LSS, token.LEQ:
				default:
					return false
				}
				if !(mentionsParam(bo.X, param, 0) || mentionsParam(bo.Y, param, 0)) {
					return false
				}
				// a comparison of a COUNT with the parameter — `k <= 0` (the guard against a negative k) compares it with a
				// constant and caps nothing
				if _, isConst := stripConv(bo.X).(*ssa.Const); isConst {
					return false
				}
				if _, isConst := stripConv(bo.Y).(*ssa.Const); isConst {
					return false
				}
				_, isIf := firstIf(bo)
				return isIf
			}
			nonEmptyReturn := func(in ssa.Instruction) bool {
				rt, ok := in.(*ssa.Return)
				if !ok || len(rt.Results) == 0 {
					return false
				}
				v := retVal(rt, 0)
				if isNilConst(v) {
					return false
				}
				// literal empty slice `[]T{}`: Slice of a zero-length array alloc
				if sl, ok := v.(*ssa.Slice); ok {
					if al, ok := sl.X.(*ssa.Alloc); ok {
						if pt, ok := al.Type().Underlying().(*types.Pointer); ok {
							if at, ok := pt.Elem().Underlying().(*types.Array); ok && at.Len() == 0 {
								return false
							}
						}
					}
				}
				// the final phase (translate, sort, cut) is a function of its own that is handed the limit: the cut is decided there
				if ex, ok := v.(*ssa.Extract); ok {
					v = ex.Tuple
				}
				if c, ok := v.(*ssa.Call); ok && depth < 2 {
					if h := c.Call.StaticCallee(); h != nil && inModule(h) && len(h.Blocks) > 0 {
						for i, a := range c.Call.Args {
							if p := capturedParam(a); p != nil && p.Name() == param && i < len(h.Params) {
								if bad, _ := uncapped(h, h.Params[i].Name(), depth+1); !bad {
									return false
								}
							}
						}
					}
				}
				return true
			}
			return (pathQuery{fn: fn, target: nonEmptyReturn, avoid: capCmp, blocked: zeroIterEdges(fn, capCmp)}).find(entryPos(fn))
		}
		found, wit := uncapped(top, s.param, 0)
		r.Cond(!found, "GRD-cap", shortName(fi.Obj)+":k-cap", w.Pos(fi.Decl.Pos()), "every non-empty result return passes a comparison with "+s.param,
			shortName(fi.Obj)+" can return results on a path that never compares the result count with "+s.param+": more than "+s.param+" results may be returned", w.witness(wit)...)
	}
}

// paramNamed: the parameter of fn called name or — parameters get renamed — the nth (0-based) parameter of fn, after the
// receiver, that satisfies is: the role is fixed by the position in the signature, the name is only how it is usually found.
func paramNamed(fn *ssa.Function, name string, nth int, is func(types.Type) bool) *ssa.Parameter {
	for _, p := range fn.Params {
		if p.Name() == name {
			return p
		}
	}
	ps := fn.Params
	if fn.Signature.Recv() != nil && len(ps) > 0 {
		ps = ps[1:]
	}
	k := 0
	for _, p := range ps {
		if is(p.Type()) {
			if k == nth {
				return p
			}
			k++
		}
	}
	return nil
}

func isPlainInt(t types.Type) bool { return basicKind(t) == types.Int }

// hasParamRecordField: fn takes a struct-typed parameter with a field of that name (the arguments travel in a record).
func hasParamRecordField(fn *ssa.Function, name string) bool {
	for _, p := range fn.Params {
		t := p.Type()
		if pt, ok := t.Underlying().(*types.Pointer); ok {
			t = pt.Elem()
		}
		if st, ok := t.Underlying().(*types.Struct); ok && !strings.HasSuffix(t.String(), "Engine") && !strings.HasSuffix(t.String(), "Index") {
			for i := 0; i < st.NumFields(); i++ {
				if st.Field(i).Name() == name {
					return true
				}
			}
		}
	}
	return false
}

// comparatorDescending: cmp is a func(a, b T) int over float-valued keys that orders greater keys first.
func comparatorDescending(cmp *ssa.Function) bool {
	if len(cmp.Params) != 2 {
		return false
	}
	side := func(v ssa.Value) int { // 0: derives from a, 1: from b, -1: neither
		for _, rt := range append(valueRoots(v), v) {
			for {
				switch x := rt.(type) {
				case *ssa.Field:
					rt = x.X
					continue
				case *ssa.UnOp:
					rt = x.X
					continue
				case *ssa.FieldAddr:
					rt = x.X
					continue
				case *ssa.IndexAddr:
					// a permutation of indexes is being sorted: the parameter selects the element
					for i, p := range cmp.Params {
						if x.Index == ssa.Value(p) || capturedParam(x.Index) == p {
							return i
						}
					}
					rt = x.X
					continue
				case *ssa.Alloc: // a struct parameter spilled to a local so that its field can be addressed
					if sts := cellStores(x); len(sts) == 1 {
						if _, isP := sts[0].Val.(*ssa.Parameter); isP {
							rt = sts[0].Val
						}
					}
				}
				break
			}
			for i, p := range cmp.Params {
				if rt == ssa.Value(p) || capturedParam(rt) == p {
					return i
				}
			}
		}
		return -1
	}
	signOf := func(v ssa.Value) int {
		if c, ok := constInt(v); ok {
			switch {
			case c < 0:
				return -1
			case c > 0:
				return 1
			}
		}
		return 0
	}
	desc, asc := false, false
	for _, b := range cmp.Blocks {
		for _, in := range b.Instrs {
			switch x := in.(type) {
			case *ssa.BinOp:
				if (x.Op != token.GTR && x.Op != token.LSS) || !isFloat(x.X.Type()) {
					continue
				}
				l, r := side(x.X), side(x.Y)
				if l < 0 || r < 0 || l == r {
					continue
				}
				aGreater := (x.Op == token.GTR && l == 0) || (x.Op == token.LSS && l == 1) // "a's key > b's key" on the true edge
				t, _ := condEdges(x)
				for _, e := range t {
					// the first return reached from the true edge
					for _, rb := range cmp.Blocks {
						rt, ok := rb.Instrs[len(rb.Instrs)-1].(*ssa.Return)
						if !ok || len(rt.Results) != 1 {
							continue
						}
						if e.from.Succs[e.succ] != rb {
							continue
						}
						sg := signOf(retVal(rt, 0))
						if ph, isPhi := retVal(rt, 0).(*ssa.Phi); isPhi && sg == 0 {
							for pi, pe := range ph.Edges {
								if ph.Block().Preds[pi] == e.from {
									sg = signOf(pe)
								}
							}
						}
						if sg == 0 {
							continue
						}
						if (aGreater && sg < 0) || (!aGreater && sg > 0) {
							desc = true
						} else {
							asc = true
						}
					}
				}
			case *ssa.Call:
				g := x.Call.StaticCallee()
				if g == nil {
					continue
				}
				o := g
				if g.Origin() != nil {
					o = g.Origin()
				}
				if o.Pkg != nil && o.Pkg.Pkg.Path() == "cmp" && o.Name() == "Compare" && len(x.Call.Args) == 2 {
					l, r := side(x.Call.Args[0]), side(x.Call.Args[1])
					if l == 1 && r == 0 {
						desc = true
					} else if l == 0 && r == 1 {
						asc = true
					}
				}
			}
		}
	}
	return desc && !asc
}

// paramFedBy: the name of helper h's parameter that top feeds with its own parameter `name` at every call ("" if none).
func paramFedBy(top, h *ssa.Function, name string) string {
	out := ""
	for _, cs := range callSitesOf(top, h) {
		hit := ""
		for i, a := range cs.Call.Args {
			if p := capturedParam(a); p != nil && p.Parent() == top && p.Name() == name && i < len(h.Params) {
				hit = h.Params[i].Name()
			}
		}
		if hit == "" || (out != "" && out != hit) {
			return ""
		}
		out = hit
	}
	return out
}

func ruleGRDorder(w *World, r *Report) {
	r.Doc("GRD-order", "fused and scored search sort descending by score before truncating / emitting", 2)
	for _, name := range []string{"Engine.searchWithFusion", "Engine.VSearchWithScores"} {
		fi := w.Func("pkg/engine", name)
		if fi == nil {
			r.Und("GRD-order", "anchor:"+name, "", "anchor lost")
			continue
		}
		fn := w.SSAFunc(fi.Obj)
		isSlicesSort := func(in ssa.Instruction) bool {
			c, ok := in.(*ssa.Call)
			if !ok || c.Call.StaticCallee() == nil {
				return false
			}
			o := c.Call.StaticCallee()
			if o.Origin() != nil {
				o = o.Origin()
			}
			return o.Pkg != nil && o.Pkg.Pkg.Path() == "slices" && (o.Name() == "SortFunc" || o.Name() == "SortStableFunc")
		}
		isSortCall := func(in ssa.Instruction) bool {
			return isCallTo(in, "sort", "Slice") || isCallTo(in, "sort", "SliceStable") || isSlicesSort(in)
		}
		sorts := findInstrs(fn, isSortCall)
		rankFn, kName := fn, "k"
		if p := paramNamed(fn, "k", 0, isPlainInt); p != nil && !hasParamRecordField(fn, "k") {
			kName = p.Name()
		}
		if len(sorts) == 0 { // the ranking phase (translate, sort, cut) may be a function of its own, handed the limit
			for _, h := range w.extractedHelpers(fn) {
				if hs := findInstrs(h, isSortCall); len(hs) > 0 && len(sorts) == 0 {
					sorts, rankFn = hs, h
					kName = paramFedBy(fn, h, "k")
				}
			}
		}
		if len(sorts) == 0 {
			r.Bad("GRD-order", name+":sort", w.Pos(fi.Decl.Pos()), name+" no longer sorts its results by score")
			continue
		}
		for _, s := range sorts {
			c := s.(*ssa.Call)
			var less *ssa.Function
			switch f := stripConv(c.Call.Args[1]).(type) {
			case *ssa.MakeClosure:
				less, _ = f.Fn.(*ssa.Function)
			case *ssa.Function: // a function literal that captures nothing
				less = f
			}
			desc := false
			if less != nil && isSlicesSort(s) {
				// a three-way comparator func(a, b T) int: descending when "a's score is greater" answers a negative number (or
				// "a's score is smaller" a positive one), or when it is cmp.Compare(b.score, a.score)
				desc = comparatorDescending(less)
			} else if less != nil {
				for _, b := range less.Blocks {
					for _, in := range b.Instrs {
						if bo, ok := in.(*ssa.BinOp); ok && bo.Op == token.GTR && isFloat(bo.X.Type()) {
							desc = true
						}
						if bo, ok := in.(*ssa.BinOp); ok && bo.Op == token.LSS && isFloat(bo.X.Type()) {
							desc = false
						}
					}
				}
			}
			r.Cond(desc, "GRD-order", name+":descending", w.Pos(s.Pos()), "comparator orders by score descending", name+" sorts with a comparator that is not `score[i] > score[j]`: results are not in non-increasing score order")
		}
		// truncation (a slice [:k] of the result) must come after the sort
		if name == "Engine.searchWithFusion" {
			trunc := func(in ssa.Instruction) bool {
				sl, ok := in.(*ssa.Slice)
				return ok && sl.High != nil && kName != "" && mentionsParam(sl.High, kName, 0)
			}
			isSort := func(in ssa.Instruction) bool { return in == sorts[len(sorts)-1] }
			found, wit := (pathQuery{fn: rankFn, target: trunc, avoid: isSort}).find(entryPos(rankFn))
			r.Cond(!found, "GRD-order", name+":sort<truncate", w.Pos(fi.Decl.Pos()), "results are sorted before being cut to k", "results are cut to k before they are sorted: the k best are not the ones returned", w.witness(wit)...)
			// the search goroutines run before the sort: they must not cut their candidate lists to k
			for _, cf := range closuresOf(fn) {
				for _, in := range findInstrs(cf, func(in ssa.Instruction) bool {
					sl, ok := in.(*ssa.Slice)
					if !ok || sl.High == nil {
						return false
					}
					return mentionsFreeVar(sl.High, "k", 0)
				}) {
					r.Bad("GRD-order", name+":no-candidate-cut-before-fusion", w.Pos(in.Pos()), "a candidate list is cut to k inside a search goroutine, before fusion: documents below rank k on one side lose that side's share of the fused score, so the fused top-k no longer follows alpha*vector + (1-alpha)*text")
				}
			}
			// ... nor stop collecting candidates once they have k of them (a length compared with k)
			for _, cf := range closuresOf(fn) {
				launched := false
				for _, g := range findInstrs(fn, func(in ssa.Instruction) bool { _, ok := in.(*ssa.Go); return ok }) {
					if mc, ok := g.(*ssa.Go).Call.Value.(*ssa.MakeClosure); ok && mc.Fn == cf {
						launched = true
					}
				}
				if !launched {
					continue
				}
				for _, in := range findInstrs(cf, func(in ssa.Instruction) bool {
					bo, ok := in.(*ssa.BinOp)
					if !ok {
						return false
					}
					switch bo.Op {
					case token.LSS, token.LEQ, token.GTR, token.GEQ, token.EQL, token.NEQ:
					default:
						return false
					}
					isLen := func(v ssa.Value) bool {
						c, ok := v.(*ssa.Call)
						if !ok {
							return false
						}
						_, l := isBuiltinCall(c, "len")
						return l
					}
					return (isLen(bo.X) && mentionsFreeVar(bo.Y, "k", 0)) || (isLen(bo.Y) && mentionsFreeVar(bo.X, "k", 0))
				}) {
					r.Bad("GRD-order", name+":no-candidate-cut-before-fusion", w.Pos(in.Pos()), "a search goroutine compares the length of its candidate list with k (it stops collecting at k hits), before fusion: documents below rank k on one side lose that side's share of the fused score, so the fused top-k no longer follows alpha*vector + (1-alpha)*text")
				}
			}
			r.Ok("GRD-order", name+":candidate-lists-reach-fusion-uncut", w.Pos(fi.Decl.Pos()), "checked")
		}
	}
}

func isFloat(t types.Type) bool {
	b, ok := t.Underlying().(*types.Basic)
	return ok && b.Info()&types.IsFloat != 0
}

func ruleGRDxlate(w *World, r *Report) {
	r.Doc("GRD-xlate", "in the fused finalisation a result is emitted only when the internal→external id translation reported found", 1)
	fi := w.Func("pkg/engine", "Engine.searchWithFusion")
	gx := w.FuncObj("pkg/core/hnsw", "Index.GetExternalID")
	if fi == nil || gx == nil {
		r.Und("GRD-xlate", "anchor:searchWithFusion/GetExternalID", "", "anchor lost")
		return
	}
	fn := w.SSAFunc(fi.Obj)
	// the translation inside a range-over-map loop (the fused map) — the finalisation
	n := 0
	var xl []ssa.Instruction
	for _, f := range append([]*ssa.Function{fn}, w.extractedHelpers(fn)...) { // (the ranking phase may be a function of its own)
		xl = append(xl, findInstrs(f, callsTo(gx))...)
	}
	for _, in := range xl {
		c := in.(*ssa.Call)
		// is the argument derived from a map iteration (Next)?
		fromMapIter := false
		if ex, ok := c.Call.Args[1].(*ssa.Extract); ok {
			if _, ok := ex.Tuple.(*ssa.Next); ok {
				fromMapIter = true
			}
		}
		if !fromMapIter {
			continue
		}
		n++
		var found ssa.Value
		for _, ref := range *c.Referrers() {
			if ex, ok := ref.(*ssa.Extract); ok && ex.Index == 1 {
				found = ex
			}
		}
		if found == nil {
			r.Bad("GRD-xlate", "searchWithFusion:fused-translate", w.Pos(c.Pos()), "the fused result loop discards GetExternalID's found flag: a node vacuumed between search and translation is emitted with an empty id")
			continue
		}
		t, f := condEdges(found)
		r.Cond(len(t)+len(f) > 0, "GRD-xlate", "searchWithFusion:fused-translate", w.Pos(c.Pos()), "found flag is branched on", "the fused result loop does not branch on GetExternalID's found flag")
	}
	if n == 0 {
		r.Und("GRD-xlate", "searchWithFusion:fused-translate", w.Pos(fi.Decl.Pos()), "cannot find the fused-map finalisation loop")
	}
}

func ruleGRDscope(w *World, r *Report) {
	r.Doc("GRD-scope", "in searchWithFusion metadata filter and graph scope are intersected (And, never Or), and every path from a filter/scope resolution to a search passes the empty-allow-list early return (an empty list must mean 'nothing', the search code reads it as 'no filter')", 4)
	fi := w.Func("pkg/engine", "Engine.searchWithFusion")
	if fi == nil {
		r.Und("GRD-scope", "anchor:searchWithFusion", "", "anchor lost")
		return
	}
	fn := w.SSAFunc(fi.Obj)
	all := append(append([]*ssa.Function{fn}, closuresOf(fn)...), w.extractedHelpers(fn)...)
	nAnd, nOr := 0, 0
	for _, f := range all {
		for _, in := range findInstrs(f, func(in ssa.Instruction) bool { _, ok := in.(*ssa.Call); return ok }) {
			if isMethodCall(in, "RoaringBitmap/roaring", "Bitmap.And") {
				nAnd++
			}
			if isMethodCall(in, "RoaringBitmap/roaring", "Bitmap.Or") || isMethodCall(in, "RoaringBitmap/roaring", "Bitmap.Xor") || isMethodCall(in, "RoaringBitmap/roaring", "Bitmap.AndNot") {
				nOr++
			}
		}
	}
	r.Cond(nAnd >= 1 && nOr == 0, "GRD-scope", "searchWithFusion:intersect", w.Pos(fi.Decl.Pos()), "filter and scope are combined with And only", fmt.Sprintf("filter and graph scope are not combined by intersection (And calls: %d, Or/Xor/AndNot calls: %d): results outside the filter or outside the scope are admitted", nAnd, nOr))
	// empty-check on every path from a resolution to a search
	search := func(in ssa.Instruction) bool {
		if c, ok := in.(*ssa.Call); ok {
			if o := calleeObj(&c.Call); o != nil {
				switch shortName(o) {
				case "VectorIndex.SearchWithScores", "Index.SearchWithScores", "DB.FindIDsByTextSearch":
					return true
				}
			}
		}
		// searches run in goroutines created after the checks: the `go` statement / closure creation counts
		if _, ok := in.(*ssa.Go); ok {
			return true
		}
		return false
	}
	// The allow-list variable: the alloc (it is captured by the search goroutines) that receives resolver results.
	srcObjs := map[*types.Func]string{w.FuncObj("pkg/core", "DB.FindIDsByFilter"): "DB.FindIDsByFilter", w.FuncObj("pkg/engine", "Engine.resolveGraphFilter"): "Engine.resolveGraphFilter"}
	resolverResult := func(v ssa.Value) string {
		if ex, ok := v.(*ssa.Extract); ok && ex.Index == 0 {
			if c, ok := ex.Tuple.(*ssa.Call); ok {
				return srcObjs[calleeObj(&c.Call)]
			}
		}
		return ""
	}
	type startPt struct {
		in   ssa.Instruction
		al   *ssa.Alloc
		what string
		regs map[ssa.Value]bool // register form (the variable is not captured): the values the list may be
	}
	var starts []startPt
	// The pre-filtering may be a function of its own that returns (allow-list, "nothing is allowed", error): inside it, a
	// return that does not say "nothing is allowed" takes the place of the searches; and the caller must leave on that
	// verdict before any search.
	top := fn
	var verdictIdx = -1
	for _, h := range w.extractedHelpers(top) {
		uses := false
		for o := range srcObjs {
			if len(findInstrs(h, callsTo(o))) > 0 {
				uses = true
			}
		}
		if !uses || len(findInstrs(top, callsTo(w.FuncObj("pkg/core", "DB.FindIDsByFilter")))) > 0 {
			continue
		}
		res := h.Signature.Results()
		for i := 0; i < res.Len(); i++ {
			if b, ok := res.At(i).Type().Underlying().(*types.Basic); ok && b.Kind() == types.Bool {
				verdictIdx = i
			}
		}
		if verdictIdx < 0 {
			continue
		}
		// caller side
		for ci, cs := range callSitesOf(top, h) {
			var verdict ssa.Value
			for _, ref := range *cs.Referrers() {
				if ex, ok := ref.(*ssa.Extract); ok && ex.Index == verdictIdx {
					verdict = ex
				}
			}
			okCaller := false
			var wit []ssa.Instruction
			if verdict != nil {
				t, f := condEdges(verdict)
				if len(t) > 0 && len(f) > 0 {
					blockedT := map[edgeKey]bool{}
					for _, e := range f {
						blockedT[e] = true
					}
					// no search when the verdict is "nothing": block the false edges, start at the call
					found1, w1 := (pathQuery{fn: top, target: search, blocked: mergeEdges(blockedT, failureEdges(top, cs))}).find(posOf(cs))
					// and no way to a search round the test
					isTest := func(in ssa.Instruction) bool {
						iff, ok := in.(*ssa.If)
						return ok && iff.Cond == verdict
					}
					found2, w2 := (pathQuery{fn: top, target: search, avoid: isTest, blocked: failureEdges(top, cs)}).find(posOf(cs))
					okCaller = !found1 && !found2
					wit = append(w1, w2...)
				}
			}
			r.Cond(okCaller, "GRD-scope", fmt.Sprintf("searchWithFusion:leaves-on-the-nothing-allowed-verdict#%d", ci+1), w.Pos(cs.Pos()), "the caller returns before any search when its pre-filtering helper reports that nothing is allowed", "searchWithFusion goes on to the searches although "+shortFn(h)+" reported an empty allow-list: the search code reads an empty list as 'no filter', so ids outside the requested scope are returned", w.witness(wit)...)
		}
		fn = h
		search = func(in ssa.Instruction) bool {
			rt, ok := in.(*ssa.Return)
			if !ok || len(rt.Results) <= verdictIdx {
				return false
			}
			if c, ok := retVal(rt, verdictIdx).(*ssa.Const); ok && c.Value != nil && constant.BoolVal(c.Value) {
				return false // "nothing is allowed"
			}
			n := len(rt.Results)
			if isErrorType(rt.Results[n-1].Type()) && !isNilConst(retVal(rt, n-1)) {
				return false // a refusal
			}
			return true
		}
		break
	}
	for _, b := range fn.Blocks {
		for _, in := range b.Instrs {
			switch x := in.(type) {
			case *ssa.Store:
				if al, ok := x.Addr.(*ssa.Alloc); ok {
					if nm := resolverResult(x.Val); nm != "" {
						starts = append(starts, startPt{in: in, al: al, what: nm})
					}
				}
			case *ssa.Call:
				if isMethodCall(x, "RoaringBitmap/roaring", "Bitmap.And") && len(x.Call.Args) == 2 {
					if nm := resolverResult(x.Call.Args[1]); nm != "" {
						if ld, ok := x.Call.Args[0].(*ssa.UnOp); ok {
							if al, ok := ld.X.(*ssa.Alloc); ok {
								starts = append(starts, startPt{in: in, al: al, what: nm + "(And)"})
							}
						}
					}
				}
			}
		}
	}
	if len(starts) == 0 { // the allow-list is not captured where it is computed: it lives in registers
		for _, b := range fn.Blocks {
			for _, in := range b.Instrs {
				switch x := in.(type) {
				case *ssa.Extract:
					if nm := resolverResult(x); nm != "" {
						direct := false // used as the list itself (tested, returned, merged), not only as the argument of And
						for _, ref := range *x.Referrers() {
							if c, ok := ref.(*ssa.Call); ok && isMethodCall(c, "RoaringBitmap/roaring", "Bitmap.And") && len(c.Call.Args) == 2 && c.Call.Args[1] == ssa.Value(x) {
								continue
							}
							direct = true
						}
						if direct {
							starts = append(starts, startPt{in: in, what: nm, regs: map[ssa.Value]bool{x: true}})
						}
					}
				case *ssa.Call:
					if isMethodCall(x, "RoaringBitmap/roaring", "Bitmap.And") && len(x.Call.Args) == 2 {
						if nm := resolverResult(x.Call.Args[1]); nm != "" {
							regs := map[ssa.Value]bool{}
							for _, l := range phiLeaves(x.Call.Args[0]) {
								regs[l] = true
							}
							starts = append(starts, startPt{in: in, what: nm + "(And)", regs: regs})
						}
					}
				}
			}
		}
	}
	if len(starts) < 2 {
		r.Und("GRD-scope", "searchWithFusion:allow-list-variable", w.Pos(fi.Decl.Pos()), "cannot find where filter/scope results are stored into the allow-list variable")
		return
	}
	failBlocked := map[edgeKey]bool{}
	for o := range srcObjs {
		for _, c := range findInstrs(fn, callsTo(o)) {
			for k := range failureEdges(fn, c.(*ssa.Call)) {
				failBlocked[k] = true
			}
		}
	}
	for i, st := range starts {
		loadOf := func(v ssa.Value) bool {
			if st.regs != nil {
				for _, l := range phiLeaves(v) {
					if st.regs[l] {
						return true
					}
				}
				return false
			}
			ld, ok := v.(*ssa.UnOp)
			return ok && ld.Op == token.MUL && ld.X == ssa.Value(st.al)
		}
		// after the store the variable is non-nil: nil-tests on it cannot take their nil edge
		nilEdges := map[edgeKey]bool{}
		for _, b := range fn.Blocks {
			for _, i2 := range b.Instrs {
				bo, ok := i2.(*ssa.BinOp)
				if !ok || (bo.Op != token.NEQ && bo.Op != token.EQL) || !(isNilConst(bo.X) || isNilConst(bo.Y)) {
					continue
				}
				other := bo.X
				if isNilConst(other) {
					other = bo.Y
				}
				if !loadOf(other) {
					continue
				}
				t, f := condEdges(bo)
				ne := f
				if bo.Op == token.EQL {
					ne = t
				}
				for _, e := range ne {
					nilEdges[e] = true
				}
			}
		}
		emptyTest := func(in ssa.Instruction) bool {
			c, ok := in.(*ssa.Call)
			return ok && isMethodCall(in, "RoaringBitmap/roaring", "Bitmap.IsEmpty") && loadOf(c.Call.Args[0])
		}
		found, wit := (pathQuery{fn: fn, target: search, avoid: emptyTest, blocked: mergeEdges(failBlocked, nilEdges)}).find(posOf(st.in))
		if os.Getenv("KVLINT_DEBUG") != "" {
			fmt.Fprintln(os.Stderr, "DEBUG GRD-scope start", i, st.what, found)
		}
		r.Cond(!found, "GRD-scope", "searchWithFusion:empty-check-after:"+st.what, w.Pos(st.in.Pos()), "an IsEmpty early return lies on every path from this assignment to the searches",
			"after the result of "+st.what+" becomes the allow-list, a path reaches the searches without the empty-allow-list test: an EMPTY scope/filter result is treated as 'no filter' by the text branches and by the layer search, so ids outside the requested scope are returned", w.witness(wit)...)
	}
}

// zeroIterEdges: for a loop whose body starts with the cap comparison (the comparison's block is a
// successor of the loop header and dominates the rest of the body), the header's exit edge is taken
// without passing the comparison only by the zero-iteration path, which carries no results. Blocking
// it removes exactly that path from a "reaches a return without passing the comparison" query.
func zeroIterEdges(fn *ssa.Function, capCmp func(ssa.Instruction) bool) map[edgeKey]bool {
	out := map[edgeKey]bool{}
	for _, h := range fn.Blocks {
		if len(h.Succs) != 2 {
			continue
		}
		for si, s := range h.Succs {
			hasCmp := false
			for _, in := range s.Instrs {
				if capCmp(in) {
					hasCmp = true
				}
			}
			if hasCmp && h.Dominates(s) && blockReaches(s, h) && len(s.Preds) == 1 {
				out[edgeKey{h, 1 - si}] = true
			}
		}
	}
	return out
}

func mentionsFreeVar(v ssa.Value, name string, depth int) bool {
	if depth > 4 || v == nil {
		return false
	}
	switch x := v.(type) {
	case *ssa.FreeVar:
		return x.Name() == name
	case *ssa.UnOp:
		return mentionsFreeVar(x.X, name, depth+1)
	case *ssa.Convert:
		return mentionsFreeVar(x.X, name, depth+1)
	case *ssa.Parameter:
		return x.Name() == name
	case *ssa.Phi:
		for _, e := range x.Edges {
			if mentionsFreeVar(e, name, depth+1) {
				return true
			}
		}
	}
	return false
}
