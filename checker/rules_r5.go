package main

// rules_r5.go — rules added after the fifth round of seeded changes.

import (
	"fmt"
	"go/constant"
	"go/token"
	"go/types"
	"math"
	"os"
	"reflect"
	"sort"
	"strings"

	"golang.org/x/tools/go/ssa"
)

// ---------------------------------------------------------------------------------------------------------------
// GRD-alloc: an integer that a caller controls never sizes an allocation unchecked.
//
// make([]T, n) / make([]T, 0, n) / make(map, n) / make(chan, n) panic for a negative n and for an n beyond the
// allocation limit ("makeslice: len out of range"); when that happens in a goroutine the engine started itself the
// panic is outside the server's recovery middleware and the process dies. The rule follows every such size back to its
// leaves; a leaf that is an integer PARAMETER of the function is followed into every caller in the module (to depth 5),
// a leaf that is an integer FIELD OF A DECODED REQUEST (a struct field with a json tag) is caller-controlled. The size is
// accepted when on the way it is (a) shown non-negative and (b) bounded above — by a constant, by min() with a bounded
// value, or by a comparison with a value that is not caller-controlled (a length, a counter, a field of the index).
// ---------------------------------------------------------------------------------------------------------------

type taint struct {
	w        *World
	memoP    map[*ssa.Parameter]*[2]bool
	depth    int
	reqTypes map[*types.Named]bool
	stores   map[fieldKey][]ssa.Instruction // every store into an integer struct field, module-wide
	ctrlF    map[fieldKey]int               // 0 unknown, 1 in progress, 2 controlled, 3 not controlled
	tameF    map[fieldKey]*[2]bool
	ctrlP    map[*ssa.Parameter]int
}

type fieldKey struct {
	owner *types.Named
	field int
}

// fieldOfLoad: v loads field f of named struct type T.
func fieldOfLoad(v ssa.Value) (fieldKey, bool) {
	var owner types.Type
	idx := -1
	switch x := v.(type) {
	case *ssa.UnOp:
		if x.Op != token.MUL {
			return fieldKey{}, false
		}
		fa, ok := x.X.(*ssa.FieldAddr)
		if !ok {
			return fieldKey{}, false
		}
		pt, ok := fa.X.Type().Underlying().(*types.Pointer)
		if !ok {
			return fieldKey{}, false
		}
		owner, idx = pt.Elem(), fa.Field
	case *ssa.Field:
		owner, idx = x.X.Type(), x.Field
	default:
		return fieldKey{}, false
	}
	nt, ok := owner.(*types.Named)
	if !ok {
		return fieldKey{}, false
	}
	return fieldKey{nt, idx}, true
}

// fieldStores: all stores into integer fields of named structs in the module (x.f = v, and T{f: v} literals, which SSA
// lowers to the same FieldAddr+Store).
func (t *taint) fieldStores() map[fieldKey][]ssa.Instruction {
	if t.stores != nil {
		return t.stores
	}
	t.stores = map[fieldKey][]ssa.Instruction{}
	for _, rel := range t.w.modulePkgRels() {
		for _, fn := range t.w.pkgSSAFuncs(rel) {
			for _, b := range fn.Blocks {
				for _, in := range b.Instrs {
					st, ok := in.(*ssa.Store)
					if !ok || !isIntType(st.Val.Type()) {
						continue
					}
					fa, ok := st.Addr.(*ssa.FieldAddr)
					if !ok {
						continue
					}
					pt, ok := fa.X.Type().Underlying().(*types.Pointer)
					if !ok {
						continue
					}
					if nt, ok := pt.Elem().(*types.Named); ok {
						k := fieldKey{nt, fa.Field}
						t.stores[k] = append(t.stores[k], st)
					}
				}
			}
		}
	}
	return t.stores
}

// fieldControlled: some store into the field writes a caller-controlled value (field-sensitive, object-insensitive).
func (t *taint) fieldControlled(k fieldKey) bool {
	switch t.ctrlF[k] {
	case 1, 3:
		return false
	case 2:
		return true
	}
	t.ctrlF[k] = 1
	res := false
	for _, in := range t.fieldStores()[k] {
		if t.controlled(in.(*ssa.Store).Val) {
			res = true
			break
		}
	}
	if res {
		t.ctrlF[k] = 2
	} else {
		t.ctrlF[k] = 3
	}
	return res
}

// fieldTamed: every store into the field writes a tamed value (judged where it is stored).
func (t *taint) fieldTamed(k fieldKey) (bool, bool) {
	if m := t.tameF[k]; m != nil {
		return m[0], m[1]
	}
	res := &[2]bool{true, true}
	t.tameF[k] = res
	n, b := true, true
	for _, in := range t.fieldStores()[k] {
		st := in.(*ssa.Store)
		sn, sb := t.tamed(st.Val, blockFacts(st.Block()), 0)
		if !sn || !sb {
			debugAlloc("    field %s.%d: untamed store at %s: nonneg=%v bounded=%v", k.owner.Obj().Name(), k.field, t.w.Pos(st.Pos()), sn, sb)
		}
		n, b = n && sn, b && sb
	}
	res[0], res[1] = n, b
	return n, b
}

func isIntType(t types.Type) bool {
	b, ok := t.Underlying().(*types.Basic)
	return ok && b.Info()&types.IsInteger != 0
}

func isUnsignedType(t types.Type) bool {
	b, ok := t.Underlying().(*types.Basic)
	return ok && b.Info()&types.IsUnsigned != 0
}

// requestTypes: the struct types a request body is decoded into — every named struct declared in internal/server and
// internal/mcp (request, argument and response shapes), every target of a json decode in a function that has an
// *http.Request parameter, and, transitively, the struct types of their fields (so hnsw.AutoMaintenanceConfig, which
// arrives inside the create and config requests, is one; a struct only read from the operator's configuration file
// is not).
func (t *taint) requestTypes() map[*types.Named]bool {
	if t.reqTypes != nil {
		return t.reqTypes
	}
	R := map[*types.Named]bool{}
	var add func(tp types.Type, depth int)
	add = func(tp types.Type, depth int) {
		if depth > 8 {
			return
		}
		switch x := tp.(type) {
		case *types.Pointer:
			add(x.Elem(), depth+1)
		case *types.Slice:
			add(x.Elem(), depth+1)
		case *types.Array:
			add(x.Elem(), depth+1)
		case *types.Map:
			add(x.Elem(), depth+1)
		case *types.Named:
			st, ok := x.Underlying().(*types.Struct)
			if !ok || R[x] || x.Obj().Pkg() == nil || !strings.HasPrefix(x.Obj().Pkg().Path(), modPath) {
				return
			}
			R[x] = true
			for i := 0; i < st.NumFields(); i++ {
				add(st.Field(i).Type(), depth+1)
			}
		}
	}
	for _, rel := range []string{"internal/server", "internal/mcp"} {
		if p := t.w.Pkg(rel); p != nil && p.Types != nil {
			sc := p.Types.Scope()
			for _, name := range sc.Names() {
				if tn, ok := sc.Lookup(name).(*types.TypeName); ok {
					if nt, ok := tn.Type().(*types.Named); ok {
						if st, ok := nt.Underlying().(*types.Struct); ok {
							tagged := false
							for i := 0; i < st.NumFields(); i++ {
								if _, ok := reflect.StructTag(st.Tag(i)).Lookup("json"); ok {
									tagged = true
								}
							}
							if tagged {
								add(nt, 0)
							}
						}
					}
				}
			}
		}
	}
	for _, rel := range t.w.modulePkgRels() {
		for _, fn := range t.w.pkgSSAFuncs(rel) {
			hasReq := false
			root := fn
			for root.Parent() != nil {
				root = root.Parent()
			}
			for _, p := range root.Params {
				if strings.HasSuffix(p.Type().String(), "net/http.Request") {
					hasReq = true
				}
			}
			if !hasReq {
				continue
			}
			for _, b := range fn.Blocks {
				for _, in := range b.Instrs {
					c, ok := in.(*ssa.Call)
					if !ok {
						continue
					}
					o := calleeObj(&c.Call)
					if o == nil || o.Pkg() == nil || o.Pkg().Path() != "encoding/json" || (o.Name() != "Decode" && o.Name() != "Unmarshal") {
						continue
					}
					arg := c.Call.Args[len(c.Call.Args)-1]
					if mi, ok := arg.(*ssa.MakeInterface); ok {
						add(mi.X.Type(), 0)
					}
				}
			}
		}
	}
	t.reqTypes = R
	return R
}

// jsonField: v loads a json-tagged field of a struct type a request body is decoded into.
func (t *taint) jsonField(v ssa.Value) (string, bool) {
	var st *types.Struct
	var owner types.Type
	idx := -1
	switch x := v.(type) {
	case *ssa.UnOp:
		if x.Op != token.MUL {
			return "", false
		}
		fa, ok := x.X.(*ssa.FieldAddr)
		if !ok {
			return "", false
		}
		pt, ok := fa.X.Type().Underlying().(*types.Pointer)
		if !ok {
			return "", false
		}
		st, _ = pt.Elem().Underlying().(*types.Struct)
		owner = pt.Elem()
		idx = fa.Field
	case *ssa.Field:
		if t.builtByCallee(x) {
			return "", false // a field of a struct the callee built itself from constants (a defaults constructor)
		}
		st, _ = x.X.Type().Underlying().(*types.Struct)
		owner = x.X.Type()
		idx = x.Field
	}
	if st == nil || idx < 0 || idx >= st.NumFields() {
		return "", false
	}
	if nt, ok := owner.(*types.Named); !ok || !t.requestTypes()[nt] {
		return "", false
	}
	if _, ok := reflect.StructTag(st.Tag(idx)).Lookup("json"); !ok {
		return "", false
	}
	return st.Field(idx).Name(), true
}

// leaves of an integer size expression: parameters and request fields it is computed from (through arithmetic,
// conversions, phis and min/max); everything else (lengths, constants, calls, state) is not caller-controlled.
func (t *taint) sizeLeaves(v ssa.Value, seen map[ssa.Value]bool, out *[]ssa.Value) {
	if seen[v] {
		return
	}
	seen[v] = true
	switch x := v.(type) {
	case *ssa.Parameter:
		if isIntType(x.Type()) && t.paramControlled(x) {
			*out = append(*out, x)
		}
	case *ssa.Extract:
		// a number parsed from the request line (path or query parameter) in the API layer
		if c, ok := x.Tuple.(*ssa.Call); ok && x.Index == 0 && isIntType(x.Type()) {
			if o := calleeObj(&c.Call); o != nil && o.Pkg() != nil && o.Pkg().Path() == "strconv" && (o.Name() == "Atoi" || o.Name() == "ParseInt" || o.Name() == "ParseUint") {
				if pk := x.Parent().Package(); pk != nil && pk.Pkg != nil && (strings.HasSuffix(pk.Pkg.Path(), "/internal/server") || strings.HasSuffix(pk.Pkg.Path(), "/internal/mcp")) {
					*out = append(*out, x)
				}
			}
		}
	case *ssa.BinOp:
		t.sizeLeaves(x.X, seen, out)
		t.sizeLeaves(x.Y, seen, out)
	case *ssa.Convert:
		t.sizeLeaves(x.X, seen, out)
	case *ssa.ChangeType:
		t.sizeLeaves(x.X, seen, out)
	case *ssa.Phi:
		for _, e := range x.Edges {
			t.sizeLeaves(e, seen, out)
		}
	case *ssa.Call:
		if bi, ok := x.Call.Value.(*ssa.Builtin); ok && (bi.Name() == "min" || bi.Name() == "max") {
			for _, a := range x.Call.Args {
				t.sizeLeaves(a, seen, out)
			}
		}
	case *ssa.FreeVar:
		if bnd := freeVarBinding(x); bnd != nil {
			t.sizeLeaves(bnd, seen, out)
		}
	case *ssa.UnOp, *ssa.Field:
		if !isIntType(v.Type()) {
			return
		}
		if f, ok := v.(*ssa.Field); ok && t.builtByCallee(f) {
			return
		}
		if _, ok := t.jsonField(v); ok {
			*out = append(*out, v)
		} else if k, ok := fieldOfLoad(v); ok && t.fieldControlled(k) {
			*out = append(*out, v)
		} else if u, ok := v.(*ssa.UnOp); ok && u.Op == token.MUL {
			// a local variable that lives in memory (captured by a closure, or address taken): its stores
			for _, st := range cellStores(u.X) {
				t.sizeLeaves(st.Val, seen, out)
			}
		}
	}
}

// freeVarBinding: the value the enclosing function binds to this free variable (nil if not unique).
func freeVarBinding(fv *ssa.FreeVar) ssa.Value {
	fn := fv.Parent()
	idx := -1
	for i, x := range fn.FreeVars {
		if x == fv {
			idx = i
		}
	}
	par := fn.Parent()
	if idx < 0 || par == nil {
		return nil
	}
	var out ssa.Value
	for _, b := range par.Blocks {
		for _, in := range b.Instrs {
			if mc, ok := in.(*ssa.MakeClosure); ok && mc.Fn == ssa.Value(fn) && idx < len(mc.Bindings) {
				if out != nil {
					return nil
				}
				out = mc.Bindings[idx]
			}
		}
	}
	return out
}

func debugAlloc(format string, a ...any) {
	if os.Getenv("KVLINT_DEBUG_ALLOC") != "" {
		fmt.Fprintf(os.Stderr, format+"\n", a...)
	}
}

var _ = sort.Strings
var _ = strings.HasPrefix

type cfact struct {
	cond   *ssa.BinOp
	holds  bool
	okCall *ssa.Call // instead of a comparison: this call is known to have returned a nil error
}

var okEdgeCache = map[*ssa.Function]map[edgeKey]*ssa.Call{}

// okEdges: for every CFG edge of fn that is taken only when some call returned a nil error, that call.
func okEdges(fn *ssa.Function) map[edgeKey]*ssa.Call {
	if m, ok := okEdgeCache[fn]; ok {
		return m
	}
	m := map[edgeKey]*ssa.Call{}
	for _, b := range fn.Blocks {
		for _, in := range b.Instrs {
			if c, ok := in.(*ssa.Call); ok && len(errValues(c)) > 0 {
				for e := range successEdges(fn, c) {
					m[e] = c
				}
			}
		}
	}
	okEdgeCache[fn] = m
	return m
}

// condOf: the comparison an If tests, with its polarity.
func condOf(b *ssa.BasicBlock) (*ssa.BinOp, bool, bool) {
	if len(b.Instrs) == 0 || len(b.Succs) != 2 || b.Succs[0] == b.Succs[1] {
		return nil, false, false
	}
	iff, ok := b.Instrs[len(b.Instrs)-1].(*ssa.If)
	if !ok {
		return nil, false, false
	}
	c, neg := iff.Cond, false
	if u, ok := c.(*ssa.UnOp); ok && u.Op == token.NOT {
		c, neg = u.X, true
	}
	bo, ok := c.(*ssa.BinOp)
	if !ok {
		return nil, false, false
	}
	return bo, neg, true
}

// blockFacts: comparisons known to hold whenever blk is entered (from the If of each dominator one of whose edges is
// the only way into the dominated region).
func blockFacts(blk *ssa.BasicBlock) []cfact {
	var out []cfact
	for b := blk; b != nil; b = b.Idom() {
		d := b.Idom()
		if d == nil {
			break
		}
		for si, s := range d.Succs {
			if s == b && len(b.Preds) == 1 {
				if c := okEdges(blk.Parent())[edgeKey{d, si}]; c != nil {
					out = append(out, cfact{okCall: c})
				}
			}
		}
		bo, neg, ok := condOf(d)
		if !ok {
			continue
		}
		// which edge of d leads to b? only if b has d as its single predecessor, or one successor of d dominates b
		for si, s := range d.Succs {
			if s == b && len(b.Preds) == 1 {
				out = append(out, cfact{cond: bo, holds: (si == 0) != neg})
			}
		}
	}
	return out
}

func edgeCFacts(pred, blk *ssa.BasicBlock) []cfact {
	out := blockFacts(pred)
	for si, s := range pred.Succs {
		if s == blk {
			if c := okEdges(blk.Parent())[edgeKey{pred, si}]; c != nil {
				out = append(out, cfact{okCall: c})
			}
		}
	}
	if bo, neg, ok := condOf(pred); ok {
		for si, s := range pred.Succs {
			if s == blk {
				out = append(out, cfact{cond: bo, holds: (si == 0) != neg})
			}
		}
	}
	return out
}

// normalise a fact about v to (op, other) with v on the left and the fact holding.
func factAbout(f cfact, v ssa.Value) (token.Token, ssa.Value, bool) {
	if f.cond == nil {
		return 0, nil, false
	}
	op, x, y := f.cond.Op, f.cond.X, f.cond.Y
	same := func(a ssa.Value) bool {
		if a == v || structEq(a, v, 0) || sameCellLoads(a, v) || sameLen(a, v) {
			return true
		}
		// through a conversion on either side
		if c, ok := a.(*ssa.Convert); ok && (c.X == v || structEq(c.X, v, 0)) {
			return true
		}
		if c, ok := v.(*ssa.Convert); ok && (c.X == a || structEq(c.X, a, 0)) {
			return true
		}
		return false
	}
	if !same(x) {
		if !same(y) {
			return 0, nil, false
		}
		x, y = y, x
		switch op {
		case token.LSS:
			op = token.GTR
		case token.LEQ:
			op = token.GEQ
		case token.GTR:
			op = token.LSS
		case token.GEQ:
			op = token.LEQ
		}
	}
	if !f.holds {
		switch op {
		case token.LSS:
			op = token.GEQ
		case token.LEQ:
			op = token.GTR
		case token.GTR:
			op = token.LEQ
		case token.GEQ:
			op = token.LSS
		case token.EQL:
			op = token.NEQ
		case token.NEQ:
			op = token.EQL
		default:
			return 0, nil, false
		}
	}
	return op, y, true
}

func (t *taint) controlled(v ssa.Value) bool {
	var ls []ssa.Value
	t.sizeLeaves(v, map[ssa.Value]bool{}, &ls)
	return len(ls) > 0
}

// tamed: (nonneg, bounded) of integer value v under the given facts.
func (t *taint) tamed(v ssa.Value, facts []cfact, depth int) (nonneg, bounded bool) {
	if os.Getenv("KVLINT_DEBUG_ALLOC") == "2" {
		defer func() {
			fmt.Fprintf(os.Stderr, "%stamed(%s=%s) = %v %v\n", strings.Repeat(" ", depth), v.Name(), v, nonneg, bounded)
		}()
	}
	if !t.controlled(v) {
		return true, true
	}
	if depth > 14 {
		return false, false
	}
	if isUnsignedType(v.Type()) {
		nonneg = true
	}
	for _, f := range facts {
		fn, fb := t.factGives(f, v, facts, depth)
		nonneg, bounded = nonneg || fn, bounded || fb
	}
	if nonneg && bounded {
		return
	}
	n2, b2 := false, false
	switch x := v.(type) {
	case *ssa.Convert:
		n2, b2 = t.tamed(x.X, facts, depth+1)
		if isUnsignedType(x.X.Type()) {
			if bt, ok := x.X.Type().Underlying().(*types.Basic); ok && (bt.Kind() == types.Uint8 || bt.Kind() == types.Uint16 || bt.Kind() == types.Uint32) {
				n2 = true
			} else {
				n2 = false
			}
		}
	case *ssa.ChangeType:
		n2, b2 = t.tamed(x.X, facts, depth+1)
	case *ssa.BinOp:
		xn, xb := t.tamed(x.X, facts, depth+1)
		yn, yb := t.tamed(x.Y, facts, depth+1)
		switch x.Op {
		case token.ADD, token.MUL:
			// a sum or product of non-negative values is non-negative only while it cannot wrap around: both
			// operands bounded
			n2, b2 = xn && yn && xb && yb, xb && yb
		case token.SUB:
			n2, b2 = t.geq(x.X, x.Y, facts, depth+1), xb && yn
		case token.QUO, token.REM, token.SHR:
			n2, b2 = xn && yn, xb
		case token.SHL:
			n2, b2 = xn, xb && yb
		case token.AND:
			n2, b2 = xn || yn, xn && xb || yn && yb
		}
	case *ssa.Phi:
		n2, b2 = true, true
		for i, e := range x.Edges {
			if e == ssa.Value(x) {
				continue
			}
			en, eb := t.tamed(e, edgeCFacts(x.Block().Preds[i], x.Block()), depth+1)
			n2, b2 = n2 && en, b2 && eb
		}
	case *ssa.Call:
		if bi, ok := x.Call.Value.(*ssa.Builtin); ok {
			switch bi.Name() {
			case "min":
				n2 = true
				for _, a := range x.Call.Args {
					an, ab := t.tamed(a, facts, depth+1)
					n2 = n2 && an
					b2 = b2 || ab
				}
			case "max":
				b2 = true
				for _, a := range x.Call.Args {
					an, ab := t.tamed(a, facts, depth+1)
					n2 = n2 || an
					b2 = b2 && ab
				}
			}
		}
	case *ssa.Parameter:
		n2, b2 = t.paramTamed(x)
	case *ssa.FreeVar:
		if bnd := freeVarBinding(x); bnd != nil {
			var mcBlk *ssa.BasicBlock
			for _, b := range x.Parent().Parent().Blocks {
				for _, in := range b.Instrs {
					if mc, ok := in.(*ssa.MakeClosure); ok && mc.Fn == ssa.Value(x.Parent()) {
						mcBlk = b
					}
				}
			}
			var fs []cfact
			if mcBlk != nil {
				fs = blockFacts(mcBlk)
			}
			n2, b2 = t.tamed(bnd, fs, depth+1)
		}
	case *ssa.UnOp, *ssa.Field:
		if _, ok := t.jsonField(v); ok {
			// a request field: what the facts say, or — for a field of a request struct that lives in a local
			// variable — what every path from the decode to this read establishes (`if req.K <= 0 { req.K = 10 }`)
			n2, b2 = false, false
			if u, ok := v.(*ssa.UnOp); ok {
				n2, b2 = t.localFieldTamed(u, depth)
			}
		} else if k, ok := fieldOfLoad(v); ok {
			n2, b2 = t.fieldTamed(k)
		} else if u, ok := v.(*ssa.UnOp); ok && u.Op == token.MUL {
			n2, b2 = t.cellTamed(u, depth)
		}
	}
	return nonneg || n2, bounded || b2
}

// paramControlled: some call site in the module passes a caller-controlled value for this parameter.
func (t *taint) paramControlled(p *ssa.Parameter) bool {
	switch t.ctrlP[p] {
	case 1, 3:
		return false
	case 2:
		return true
	}
	t.ctrlP[p] = 1
	res := false
	t.eachArg(p, func(arg ssa.Value, site ssa.CallInstruction, caller *ssa.Function) bool {
		if t.controlled(arg) {
			res = true
			return false
		}
		return true
	})
	if res {
		t.ctrlP[p] = 2
	} else {
		t.ctrlP[p] = 3
	}
	return res
}

// eachArg: the argument every in-module call site passes for parameter p (static and dynamic edges of the call graph).
func (t *taint) eachArg(p *ssa.Parameter, f func(arg ssa.Value, site ssa.CallInstruction, caller *ssa.Function) bool) {
	fn := p.Parent()
	idx := -1
	for i, q := range fn.Params {
		if q == p {
			idx = i
		}
	}
	node := t.w.CallGraph().Nodes[fn]
	if idx < 0 || node == nil {
		return
	}
	for _, e := range node.In {
		if e.Caller == nil || e.Caller.Func == nil || !inModule(e.Caller.Func) || e.Site == nil {
			continue
		}
		if e.Caller.Func.Pos().IsValid() && isTestFile(t.w.Fset, e.Caller.Func.Pos()) {
			continue
		}
		args := e.Site.Common().Args
		ai := idx
		if e.Site.Common().IsInvoke() {
			if fn.Signature.Recv() == nil {
				continue
			}
			ai = idx - 1 // the receiver is not among the Args of an interface call
		}
		if ai < 0 || ai >= len(args) || !types.Identical(args[ai].Type().Underlying(), p.Type().Underlying()) && !(isIntType(args[ai].Type()) && isIntType(p.Type())) {
			continue
		}
		if !f(args[ai], e.Site, e.Caller.Func) {
			return
		}
	}
}

// paramTamed: every call site in the module passes a tamed value for this parameter.
func (t *taint) paramTamed(p *ssa.Parameter) (bool, bool) {
	if m := t.memoP[p]; m != nil {
		return m[0], m[1]
	}
	res := &[2]bool{true, true} // optimistic for recursion
	t.memoP[p] = res
	if t.depth > 6 {
		return true, true
	}
	t.depth++
	defer func() { t.depth-- }()
	n, b := true, true
	t.eachArg(p, func(arg ssa.Value, site ssa.CallInstruction, caller *ssa.Function) bool {
		if !t.controlled(arg) {
			return true
		}
		an, ab := t.tamed(arg, blockFacts(site.Block()), 0)
		if !an || !ab {
			var ls []ssa.Value
			t.sizeLeaves(arg, map[ssa.Value]bool{}, &ls)
			desc := ""
			for _, l := range ls {
				desc += " [" + l.Name() + "=" + l.String() + " in " + fnName(l.Parent()) + "]"
			}
			debugAlloc("    param %s of %s: untamed at call in %s (%s): nonneg=%v bounded=%v leaves:%s", p.Name(), fnName(p.Parent()), fnName(caller), t.w.Pos(site.Pos()), an, ab, desc)
		}
		n, b = n && an, b && ab
		return true
	})
	res[0], res[1] = n, b
	return n, b
}

func ruleGRDalloc(w *World, r *Report) {
	if os.Getenv("KVLINT_DEBUG_INDEXING") != "" {
		debugTaintedIndexing(w)
	}
	r.Doc("GRD-alloc", "an integer that a request controls — a field of a decoded request body or a number parsed from the request line, followed through parameters, closures and struct fields into every function of the module — never sizes a make() or cuts a slice unchecked: before a make it is shown non-negative and bounded above by a constant or by a value the request does not control; as a slice bound or index it is shown non-negative and compared with the length of that slice (a negative or oversized make and a negative bound panic, and in a goroutine of the engine's own that ends the process)", 3)
	t := &taint{w: w, memoP: map[*ssa.Parameter]*[2]bool{}, ctrlF: map[fieldKey]int{}, tameF: map[fieldKey]*[2]bool{}, ctrlP: map[*ssa.Parameter]int{}}
	n := 0
	for _, rel := range w.modulePkgRels() {
		for _, fn := range w.pkgSSAFuncs(rel) {
			for _, b := range fn.Blocks {
				for _, in := range b.Instrs {
					var sizes []ssa.Value
					kind := ""
					switch x := in.(type) {
					case *ssa.MakeSlice:
						sizes, kind = []ssa.Value{x.Len, x.Cap}, "make-slice"
					case *ssa.MakeMap:
						if x.Reserve != nil {
							sizes, kind = []ssa.Value{x.Reserve}, "make-map"
						}
					case *ssa.MakeChan:
						sizes, kind = []ssa.Value{x.Size}, "make-chan"
					}
					for si, s := range sizes {
						if s == nil || !t.controlled(s) {
							continue
						}
						if si == 1 && sizes[0] == s {
							continue
						}
						n++
						nn, bd := t.tamed(s, blockFacts(b), 0)
						key := fmt.Sprintf("%s:%s#%d", shortFn(fn), kind, ordinalIn(fn, in))
						debugAlloc("%s %s nonneg=%v bounded=%v  %s", key, w.Pos(in.Pos()), nn, bd, s)
						r.Cond(nn && bd, "GRD-alloc", key, w.Pos(in.Pos()), "the caller-controlled size is non-negative and bounded on every path to the allocation",
							fmt.Sprintf("a caller-controlled integer sizes this allocation unchecked (shown non-negative: %v; bounded above: %v): a negative or oversized value panics in make — in a goroutine started by the engine itself that is outside the server's recovery and ends the process", nn, bd))
					}
				}
			}
		}
	}
	if n == 0 {
		r.Und("GRD-alloc", "sites", "", "no allocation sized by a caller-controlled integer found (analysis lost its anchors)")
	}
	// second sink class: slice bounds and indexes
	for _, rel := range w.modulePkgRels() {
		for _, fn := range w.pkgSSAFuncs(rel) {
			for _, b := range fn.Blocks {
				for _, in := range b.Instrs {
					var bounds []ssa.Value
					var base ssa.Value
					strict := false
					switch x := in.(type) {
					case *ssa.Slice:
						bounds, base = []ssa.Value{x.Low, x.High, x.Max}, x.X
					case *ssa.IndexAddr:
						bounds, base, strict = []ssa.Value{x.Index}, x.X, true
					case *ssa.Index:
						bounds, base, strict = []ssa.Value{x.Index}, x.X, true
					}
					for bi, v := range bounds {
						if v == nil || !t.controlled(v) {
							continue
						}
						facts := blockFacts(b)
						nn, _ := t.tamed(v, facts, 0)
						within := t.withinLen(v, base, facts, strict, 0)
						role := []string{"low", "high", "max"}[bi]
						if strict {
							role = "index"
						}
						key := fmt.Sprintf("%s:bound#%d:%s", shortFn(fn), ordinalIn(fn, in), role)
						debugAlloc("%s %s nonneg=%v within=%v  %s", key, w.Pos(in.Pos()), nn, within, v)
						r.Cond(nn && within, "GRD-alloc", key, w.Pos(in.Pos()), "the caller-controlled bound is non-negative and compared with the length of the slice it cuts",
							fmt.Sprintf("a caller-controlled integer is used as a slice bound or index unchecked (shown non-negative: %v; shown within the length: %v): `s[:k]` with a negative k panics (slice bounds out of range) — in a worker goroutine of the engine that ends the process", nn, within))
					}
				}
			}
		}
	}
}

// withinLen: v <= len(base) (strict: v < len(base)) is known.
func (t *taint) withinLen(v, base ssa.Value, facts []cfact, strict bool, depth int) bool {
	if depth > 8 {
		return false
	}
	isLenOfBase := func(o ssa.Value) bool {
		c, ok := o.(*ssa.Call)
		if !ok {
			return false
		}
		bi, ok := c.Call.Value.(*ssa.Builtin)
		if !ok || (bi.Name() != "len" && bi.Name() != "cap") || len(c.Call.Args) != 1 {
			return false
		}
		return sameVal(c.Call.Args[0], base)
	}
	if c, ok := constInt(v); ok && c == 0 && !strict {
		return true
	}
	if isLenOfBase(v) && !strict {
		return true
	}
	for _, f := range facts {
		if op, o, ok := factAbout(f, v); ok && isLenOfBase(o) {
			if op == token.LSS || (op == token.LEQ || op == token.EQL) && !strict {
				return true
			}
		}
	}
	switch x := v.(type) {
	case *ssa.Call:
		if bi, ok := x.Call.Value.(*ssa.Builtin); ok && bi.Name() == "min" && !strict {
			for _, a := range x.Call.Args {
				if isLenOfBase(a) {
					return true
				}
			}
		}
	case *ssa.Phi:
		for i, e := range x.Edges {
			if !t.withinLen(e, base, append(append([]cfact{}, facts...), edgeCFacts(x.Block().Preds[i], x.Block())...), strict, depth+1) {
				return false
			}
		}
		return true
	case *ssa.Convert:
		return t.withinLen(x.X, base, facts, strict, depth+1)
	}
	return false
}

// ordinalIn: 1-based index of `in` among the instructions of the same kind in fn (a line-free site key).
func ordinalIn(fn *ssa.Function, in ssa.Instruction) int {
	k := 0
	for _, b := range fn.Blocks {
		for _, x := range b.Instrs {
			if reflect.TypeOf(x) == reflect.TypeOf(in) {
				k++
				if x == in {
					return k
				}
			}
		}
	}
	return 0
}

// modulePkgRels: the module-relative paths of every loaded package of the module, sorted.
func (w *World) modulePkgRels() []string {
	seen := map[string]bool{}
	var out []string
	for _, fi := range w.ModuleFuncs() {
		if fi.Obj == nil || fi.Obj.Pkg() == nil {
			continue
		}
		rel := strings.TrimPrefix(strings.TrimPrefix(fi.Obj.Pkg().Path(), modPath), "/")
		if rel != "" && !seen[rel] {
			seen[rel] = true
			out = append(out, rel)
		}
	}
	sort.Strings(out)
	return out
}

// cellStores: the stores into a local variable that lives in memory (captured by reference or address taken), found
// from any function that sees it (the owner, or a closure through its free variable).
func cellStores(addr ssa.Value) []*ssa.Store {
	al, ok := cellRoot(addr).(*ssa.Alloc)
	if !ok {
		return nil
	}
	owner := al.Parent()
	var out []*ssa.Store
	for _, f := range append([]*ssa.Function{owner}, closuresOf(owner)...) {
		for _, b := range f.Blocks {
			for _, in := range b.Instrs {
				if st, ok := in.(*ssa.Store); ok && cellRoot(st.Addr) == ssa.Value(al) {
					out = append(out, st)
				}
			}
		}
	}
	return out
}

// factGives: what a comparison known to hold says about v — (non-negative, bounded above).
func (t *taint) factGives(f cfact, v ssa.Value, facts []cfact, depth int) (nonneg, bounded bool) {
	if f.okCall != nil {
		g := f.okCall.Call.StaticCallee()
		if g == nil || len(g.Blocks) == 0 || !inModule(g) {
			return
		}
		args := f.okCall.Call.Args
		for i, a := range args {
			if i < len(g.Params) && (a == v || structEq(a, v, 0)) && isIntType(a.Type()) {
				n, b := t.validated(g, g.Params[i], depth)
				nonneg, bounded = nonneg || n, bounded || b
			}
		}
		// the request travels in a local record (`req := createRequest{m: m, …}; if err := req.validate(); …`): a
		// successful call on the record validates v when v was stored into a field of it and the callee cannot report
		// success without a validator having accepted that field
		for _, rc := range recordFieldCalls(f.okCall, v) {
			g2 := rc.vc.Call.StaticCallee()
			if rc.j < len(g2.Params) && isIntType(rc.vc.Call.Args[rc.j].Type()) {
				n, b := t.validated(g2, g2.Params[rc.j], depth+1)
				nonneg, bounded = nonneg || n, bounded || b
			}
		}
		return
	}
	op, o, ok := factAbout(f, v)
	if !ok {
		return
	}
	c, isC := constInt(o)
	switch op {
	case token.GEQ:
		nonneg = isC && c >= 0
	case token.GTR:
		nonneg = isC && c >= -1
	case token.LEQ, token.LSS:
		if isC || !t.controlled(o) {
			bounded = true
		} else if _, ob := t.tamed(o, facts, depth+1); ob {
			bounded = true
		}
	case token.EQL:
		if isC {
			bounded = true
			nonneg = c >= 0
		} else if !t.controlled(o) {
			bounded = true
		}
	}
	return
}

type recordCall struct {
	vc *ssa.Call
	j  int
}

// recordFieldCalls: call hands a local record (a struct variable of the caller, by value or by address) to a function g
// of the module; v was stored into field f of that record. The result lists the calls inside g that are given a read of
// field f of that parameter and that g cannot report success without (argument position j).
func recordFieldCalls(call *ssa.Call, v ssa.Value) []recordCall {
	g := call.Call.StaticCallee()
	if g == nil || len(g.Blocks) == 0 || !inModule(g) {
		return nil
	}
	var out []recordCall
	for i, a := range call.Call.Args {
		if i >= len(g.Params) {
			continue
		}
		var rec *ssa.Alloc
		switch x := a.(type) {
		case *ssa.Alloc:
			rec = x
		case *ssa.UnOp:
			if x.Op == token.MUL {
				rec, _ = x.X.(*ssa.Alloc)
			}
		}
		if rec == nil || rec.Referrers() == nil {
			continue
		}
		for _, ref := range *rec.Referrers() {
			fa, ok := ref.(*ssa.FieldAddr)
			if !ok || fa.Referrers() == nil {
				continue
			}
			holdsV := false
			for _, r2 := range *fa.Referrers() {
				if st, ok := r2.(*ssa.Store); ok && st.Addr == ssa.Value(fa) && (st.Val == v || structEq(st.Val, v, 0) || sameValue(st.Val, v)) {
					holdsV = true
				}
			}
			if !holdsV {
				continue
			}
			for _, gb := range g.Blocks {
				for _, gin := range gb.Instrs {
					vc, ok := gin.(*ssa.Call)
					if !ok || vc.Call.StaticCallee() == nil || !inModule(vc.Call.StaticCallee()) {
						continue
					}
					for j, va := range vc.Call.Args {
						isField := false
						for _, fx0 := range append(valueRoots(va), va) {
							switch fx := fx0.(type) {
							case *ssa.Field:
								isField = isField || (fx.X == ssa.Value(g.Params[i]) && fx.Field == fa.Field)
							case *ssa.UnOp:
								if gfa, ok := fx.X.(*ssa.FieldAddr); ok && fx.Op == token.MUL && gfa.Field == fa.Field {
									isField = isField || gfa.X == ssa.Value(g.Params[i]) || paramRecordBase(gfa.X) == g.Params[i]
								}
							}
						}
						if !isField {
							continue
						}
						me := vc
						if !cannotReturnWithout(g, func(x ssa.Instruction) bool { return x == ssa.Instruction(me) }) {
							continue
						}
						out = append(out, recordCall{vc, j})
					}
				}
			}
		}
	}
	return out
}

// cellTamed: a load of a local variable that lives in memory (captured by a closure). Its value is one of the values
// stored into the cell; a store whose value is not tamed where it is stored is still accepted when every path from it
// to the load (within the owning function; a load inside a closure is placed where the closure is created), that does
// not pass another store into the cell, takes an edge on which a comparison of the cell's value establishes the
// missing property — the `if x <= 0 { x = default }` idiom.
func (t *taint) cellTamed(load *ssa.UnOp, depth int) (bool, bool) {
	al, ok := cellRoot(load.X).(*ssa.Alloc)
	if !ok {
		return false, false
	}
	owner := al.Parent()
	sts := cellStores(load.X)
	if len(sts) == 0 {
		return false, false
	}
	// where the load happens, seen from the owner
	var use ssa.Instruction = load
	for f := load.Parent(); f != owner; f = f.Parent() {
		if f == nil || f.Parent() == nil {
			return false, false
		}
		var mcI ssa.Instruction
		for _, b := range f.Parent().Blocks {
			for _, in := range b.Instrs {
				if mc, ok := in.(*ssa.MakeClosure); ok && mc.Fn == ssa.Value(f) {
					mcI = mc
				}
			}
		}
		if mcI == nil {
			return false, false
		}
		use = mcI
	}
	isLoadOfCell := func(v ssa.Value) bool {
		u, ok := v.(*ssa.UnOp)
		return ok && u.Op == token.MUL && cellRoot(u.X) == ssa.Value(al)
	}
	// edges of the owner on which a comparison of the cell's value establishes a property
	nnEdges, bdEdges := map[edgeKey]bool{}, map[edgeKey]bool{}
	for _, b := range owner.Blocks {
		bo, neg, ok := condOf(b)
		if !ok {
			continue
		}
		var lv ssa.Value
		if isLoadOfCell(bo.X) {
			lv = bo.X
		} else if isLoadOfCell(bo.Y) {
			lv = bo.Y
		} else {
			continue
		}
		if lv.(*ssa.UnOp).Block() != b {
			continue // the load and the test are in the same block: no store in between
		}
		storeBetween := false
		seenLoad := false
		for _, in := range b.Instrs {
			if in == lv.(ssa.Instruction) {
				seenLoad = true
			}
			if st, ok := in.(*ssa.Store); ok && seenLoad && cellRoot(st.Addr) == ssa.Value(al) {
				storeBetween = true
			}
		}
		if storeBetween {
			continue
		}
		for si := range b.Succs {
			fn, fb := t.factGives(cfact{cond: bo, holds: (si == 0) != neg}, lv, nil, depth+1)
			if fn {
				nnEdges[edgeKey{b, si}] = true
			}
			if fb {
				bdEdges[edgeKey{b, si}] = true
			}
		}
	}
	n, b := true, true
	for _, st := range sts {
		sn, sb := t.tamed(st.Val, blockFacts(st.Block()), depth+1)
		if sn && sb {
			continue
		}
		if st.Parent() != owner {
			n, b = n && sn, b && sb
			continue
		}
		other := func(in ssa.Instruction) bool {
			o, ok := in.(*ssa.Store)
			return ok && o != st && cellRoot(o.Addr) == ssa.Value(al)
		}
		target := func(in ssa.Instruction) bool { return in == use }
		if !sn {
			if found, _ := (pathQuery{fn: owner, target: target, avoid: other, blocked: nnEdges}).find(posOf(st)); found {
				n = false
			}
		}
		if !sb {
			if found, _ := (pathQuery{fn: owner, target: target, avoid: other, blocked: bdEdges}).find(posOf(st)); found {
				b = false
			}
		}
	}
	return n, b
}

// geq: x >= y is known (so x - y is not negative): x is y plus something non-negative, a comparison on the way says
// so, or it holds for every value a phi on either side can take, under the facts of the edge that value arrives on.
func (t *taint) geq(x, y ssa.Value, facts []cfact, depth int) (res bool) {
	if os.Getenv("KVLINT_DEBUG_ALLOC") == "2" {
		defer func() {
			fmt.Fprintf(os.Stderr, "%sgeq(%s=%s, %s=%s) = %v\n", strings.Repeat(" ", depth), x.Name(), x, y.Name(), y, res)
		}()
	}
	if depth > 14 {
		return false
	}
	if x == y {
		return true
	}
	if cx, ok := constInt(x); ok {
		if cy, ok := constInt(y); ok {
			return cx >= cy
		}
	}
	if cy, ok := constInt(y); ok && cy <= 0 {
		if n, _ := t.tamed(x, facts, depth+1); n {
			return true
		}
	}
	for _, f := range facts {
		if op, o, ok := factAbout(f, x); ok && (o == y || structEq(o, y, 0) || sameLen(o, y)) && (op == token.GEQ || op == token.GTR || op == token.EQL) {
			return true
		}
	}
	if b, ok := x.(*ssa.BinOp); ok && b.Op == token.ADD {
		// y + z >= y for a non-negative z — unless the sum wraps around: z bounded as well
		if b.X == y {
			if n, bd := t.tamed(b.Y, facts, depth+1); n && bd {
				return true
			}
		}
		if b.Y == y {
			if n, bd := t.tamed(b.X, facts, depth+1); n && bd {
				return true
			}
		}
	}
	if px, ok := x.(*ssa.Phi); ok {
		all := true
		for i, e := range px.Edges {
			if !t.geq(e, y, append(append([]cfact{}, facts...), edgeCFacts(px.Block().Preds[i], px.Block())...), depth+1) {
				all = false
				break
			}
		}
		if all {
			return true
		}
	}
	if py, ok := y.(*ssa.Phi); ok {
		all := true
		for i, e := range py.Edges {
			if !t.geq(x, e, append(append([]cfact{}, facts...), edgeCFacts(py.Block().Preds[i], py.Block())...), depth+1) {
				all = false
				break
			}
		}
		if all {
			return true
		}
	}
	return false
}

// builtByCallee: f reads a field of a struct returned by a module function that builds it in a local literal whose
// store into that field is a constant on every return (DefaultMaintenanceConfig().RefineBatchSize).
func (t *taint) builtByCallee(f *ssa.Field) bool {
	c, ok := f.X.(*ssa.Call)
	if !ok {
		return false
	}
	g := c.Call.StaticCallee()
	if g == nil || len(g.Blocks) == 0 || !inModule(g) {
		return false
	}
	rets := 0
	for _, b := range g.Blocks {
		rt, ok := b.Instrs[len(b.Instrs)-1].(*ssa.Return)
		if !ok {
			continue
		}
		rets++
		if len(rt.Results) != 1 {
			return false
		}
		ld, ok := rt.Results[0].(*ssa.UnOp)
		if !ok || ld.Op != token.MUL {
			return false
		}
		al, ok := ld.X.(*ssa.Alloc)
		if !ok || al.Referrers() == nil {
			return false
		}
		okStore := false
		for _, ref := range *al.Referrers() {
			switch r := ref.(type) {
			case *ssa.FieldAddr:
				if r.Field != f.Field || r.Referrers() == nil {
					continue
				}
				for _, rr := range *r.Referrers() {
					if st, ok := rr.(*ssa.Store); ok && st.Addr == ssa.Value(r) {
						if _, isC := st.Val.(*ssa.Const); !isC {
							return false
						}
						okStore = true
					}
				}
			case *ssa.UnOp, *ssa.DebugRef:
			default:
				if st, ok := ref.(*ssa.Store); ok && st.Addr == ssa.Value(al) {
					return false // the whole struct is overwritten from elsewhere
				}
			}
		}
		if !okStore {
			return false
		}
	}
	return rets > 0
}

// ---------------------------------------------------------------------------------------------------------------
// WEB-10: a string taken from the request line or a header never becomes a Prometheus label value as it is.
//
// (*MetricVec).WithLabelValues panics on a label value that is not valid UTF-8. A JSON body cannot deliver one (the
// decoder replaces invalid sequences), but the percent-decoded path, a path parameter, a query value or a header can.
// The rule follows such strings through parameters into every function of the module and reports a label argument
// that one of them reaches without passing strings.ToValidUTF8 (or a conversion that only produces digits).
// ---------------------------------------------------------------------------------------------------------------

type strTaint struct {
	t     *taint
	ctrlP map[*ssa.Parameter]int
}

// rawRequestString: v is a string read from the request line or the headers.
func rawRequestString(v ssa.Value) (string, bool) {
	switch x := v.(type) {
	case *ssa.Call:
		o := calleeObj(&x.Call)
		if o == nil || o.Pkg() == nil {
			return "", false
		}
		switch o.Pkg().Path() + "." + shortName(o) {
		case "net/http.Request.PathValue", "net/http.Request.FormValue", "net/http.Request.PostFormValue", "net/http.Header.Get", "net/url.Values.Get", "net/url.URL.Query", "net/url.URL.EscapedPath", "net/url.URL.String", "net/http.Request.UserAgent", "net/http.Request.Referer":
			return shortName(o), true
		}
	case *ssa.UnOp:
		if x.Op != token.MUL {
			return "", false
		}
		fa, ok := x.X.(*ssa.FieldAddr)
		if !ok {
			return "", false
		}
		pt, ok := fa.X.Type().Underlying().(*types.Pointer)
		if !ok {
			return "", false
		}
		nt, ok := pt.Elem().(*types.Named)
		if !ok || nt.Obj().Pkg() == nil {
			return "", false
		}
		st := nt.Underlying().(*types.Struct)
		name := st.Field(fa.Field).Name()
		switch nt.Obj().Pkg().Path() + "." + nt.Obj().Name() + "." + name {
		case "net/url.URL.Path", "net/url.URL.RawPath", "net/url.URL.RawQuery", "net/url.URL.Fragment", "net/http.Request.RequestURI", "net/http.Request.Host", "net/url.URL.Host":
			return nt.Obj().Name() + "." + name, true
		}
	}
	return "", false
}

// reach: a raw request string reaches v (through phis, concatenation, slicing, conversions, the usual strings helpers
// and parameters) without a sanitiser on the way. Returns a description of the source.
func (s *strTaint) reach(v ssa.Value, seen map[ssa.Value]bool) (string, bool) {
	if seen[v] {
		return "", false
	}
	seen[v] = true
	if src, ok := rawRequestString(v); ok {
		return src, true
	}
	switch x := v.(type) {
	case *ssa.Phi:
		for _, e := range x.Edges {
			if src, ok := s.reach(e, seen); ok {
				return src, true
			}
		}
	case *ssa.BinOp:
		if x.Op == token.ADD {
			for _, e := range []ssa.Value{x.X, x.Y} {
				if src, ok := s.reach(e, seen); ok {
					return src, true
				}
			}
		}
	case *ssa.Slice:
		return s.reach(x.X, seen)
	case *ssa.Convert:
		return s.reach(x.X, seen)
	case *ssa.ChangeType:
		return s.reach(x.X, seen)
	case *ssa.Call:
		o := calleeObj(&x.Call)
		if o == nil || o.Pkg() == nil {
			return "", false
		}
		switch o.Pkg().Path() + "." + o.Name() {
		case "strings.ToValidUTF8", "strconv.Quote", "strconv.QuoteToASCII", "net/url.PathEscape", "net/url.QueryEscape":
			return "", false // sanitisers
		case "strings.TrimPrefix", "strings.TrimSuffix", "strings.TrimSpace", "strings.Trim", "strings.TrimLeft", "strings.TrimRight", "strings.ToLower", "strings.ToUpper", "strings.Clone", "path.Clean", "path.Base", "path/filepath.Clean", "path/filepath.Base", "strings.ReplaceAll", "strings.Replace":
			if len(x.Call.Args) > 0 {
				return s.reach(x.Call.Args[0], seen)
			}
		}
	case *ssa.Parameter:
		if !isStringType(x.Type()) {
			return "", false
		}
		var src string
		found := false
		s.t.eachArg(x, func(arg ssa.Value, site ssa.CallInstruction, caller *ssa.Function) bool {
			if a, ok := s.reach(arg, seen); ok {
				src, found = a+" → "+shortFn(x.Parent())+"("+x.Name()+")", true
				return false
			}
			return true
		})
		return src, found
	case *ssa.FreeVar:
		if bnd := freeVarBinding(x); bnd != nil {
			return s.reach(bnd, seen)
		}
	case *ssa.UnOp:
		if x.Op == token.MUL {
			for _, st := range cellStores(x.X) {
				if src, ok := s.reach(st.Val, seen); ok {
					return src, true
				}
			}
		}
	}
	return "", false
}

func ruleWEB10(w *World, r *Report) {
	r.Doc("WEB-10", "no string read from the request line or a header (URL path, path parameter, query value, header) reaches a Prometheus label value without strings.ToValidUTF8: WithLabelValues panics on invalid UTF-8, after the handler may already have answered", 3)
	st := &strTaint{t: &taint{w: w, memoP: map[*ssa.Parameter]*[2]bool{}, ctrlF: map[fieldKey]int{}, tameF: map[fieldKey]*[2]bool{}, ctrlP: map[*ssa.Parameter]int{}}}
	n := 0
	for _, rel := range w.modulePkgRels() {
		for _, fn := range w.pkgSSAFuncs(rel) {
			k := 0
			for _, b := range fn.Blocks {
				for _, in := range b.Instrs {
					c, ok := in.(*ssa.Call)
					if !ok {
						continue
					}
					o := calleeObj(&c.Call)
					if o == nil || o.Pkg() == nil || !strings.Contains(o.Pkg().Path(), "prometheus/client_golang/prometheus") || (o.Name() != "WithLabelValues" && o.Name() != "GetMetricWithLabelValues") {
						continue
					}
					k++
					n++
					// the variadic label values: elements stored into the argument slice
					var vals []ssa.Value
					for _, a := range c.Call.Args {
						if sl, ok := a.(*ssa.Slice); ok {
							if al, ok := sl.X.(*ssa.Alloc); ok && al.Referrers() != nil {
								for _, ref := range *al.Referrers() {
									if ia, ok := ref.(*ssa.IndexAddr); ok && ia.Referrers() != nil {
										for _, rr := range *ia.Referrers() {
											if s2, ok := rr.(*ssa.Store); ok && s2.Addr == ssa.Value(ia) {
												vals = append(vals, s2.Val)
											}
										}
									}
								}
							}
						} else if isStringType(a.Type()) {
							vals = append(vals, a)
						}
					}
					bad := ""
					for _, v := range vals {
						if src, ok := st.reach(v, map[ssa.Value]bool{}); ok {
							bad = src
						}
					}
					r.Cond(bad == "", "WEB-10", fmt.Sprintf("%s:label-values#%d", shortFn(fn), k), w.Pos(c.Pos()), fmt.Sprintf("none of the %d label values is a raw request string", len(vals)),
						"a label value of this metric is a string from the request line or a header ("+bad+") that was not passed through strings.ToValidUTF8: WithLabelValues panics on invalid UTF-8 (GET /kv/%ff), after the handler has already answered or applied the operation — the request ends in the panic-recovery path")
				}
			}
		}
	}
	if n == 0 {
		r.Und("WEB-10", "sites", "", "no WithLabelValues call found (analysis lost its anchors)")
	}
}

// ---------------------------------------------------------------------------------------------------------------
// GRD-trained (clause): ensureQuantizerTrained asks the quantizer itself on every call.
// A memo ("already checked") goes stale when the quantizer object is replaced (compression, snapshot load, retrain).
// ---------------------------------------------------------------------------------------------------------------
func ruleGRDtrainedEnsure(w *World, r *Report) {
	r.Doc("GRD-trained-ensure", "an exit of Index.ensureQuantizerTrained that does not ask the current quantizer (IsTrained) is decided by the arguments or by the quantizer pointer only, never by other state of the index (a remembered 'already checked' flag goes stale when the quantizer is replaced, and records that a check happened, not that the quantizer is trained)", 1)
	fi := w.Func(hnswPkg, "Index.ensureQuantizerTrained")
	isTr := w.FuncObj("pkg/core/distance", "Quantizer.IsTrained")
	if fi == nil || isTr == nil {
		r.Und("GRD-trained-ensure", "anchor:ensureQuantizerTrained", "", "anchor lost")
		return
	}
	fn := w.SSAFunc(fi.Obj)
	if len(findInstrs(fn, callsTo(isTr))) == 0 {
		r.Bad("GRD-trained-ensure", "Index.ensureQuantizerTrained:bypass-not-decided-by-index-state", w.Pos(fi.Decl.Pos()), "ensureQuantizerTrained no longer asks the quantizer whether it is trained")
		return
	}
	// state of the index other than the quantizer pointer that a condition reads
	var otherState func(v ssa.Value, depth int) string
	otherState = func(v ssa.Value, depth int) string {
		if depth > 10 {
			return ""
		}
		if fa, ok := v.(*ssa.FieldAddr); ok {
			if owner, f := structFieldName(fa.X.Type(), fa.Field); strings.HasSuffix(owner, "Index") && f != "quantizer" && f != "quantizerMu" {
				return f
			}
		}
		in, ok := v.(ssa.Instruction)
		if !ok {
			return ""
		}
		if c, ok := v.(*ssa.Call); ok {
			if o := calleeObj(&c.Call); o != nil && o == isTr {
				return ""
			}
		}
		for _, op := range in.Operands(nil) {
			if *op != nil {
				if f := otherState(*op, depth+1); f != "" {
					return f
				}
			}
		}
		return ""
	}
	bad := ""
	var at token.Pos
	var wit []ssa.Instruction
	for _, b := range fn.Blocks {
		if len(b.Instrs) == 0 {
			continue
		}
		iff, ok := b.Instrs[len(b.Instrs)-1].(*ssa.If)
		if !ok {
			continue
		}
		f := otherState(iff.Cond, 0)
		if f == "" {
			continue
		}
		for si := range b.Succs {
			start := ipos{b.Succs[si], -1}
			if found, wt := (pathQuery{fn: fn, target: isReturn, avoid: callsTo(isTr)}).find(start); found {
				// only if the branch itself lies on a path that has not asked yet
				if pre, _ := (pathQuery{fn: fn, target: func(in ssa.Instruction) bool { return in == ssa.Instruction(iff) }, avoid: callsTo(isTr)}).find(entryPos(fn)); pre {
					bad, at, wit = f, iff.Cond.Pos(), wt
				}
			}
		}
	}
	pos := w.Pos(fi.Decl.Pos())
	if bad != "" {
		pos = w.Pos(at)
	}
	r.Cond(bad == "", "GRD-trained-ensure", "Index.ensureQuantizerTrained:bypass-not-decided-by-index-state", pos, "no exit that skips IsTrained is decided by other state of the index", "ensureQuantizerTrained can return without asking the quantizer whether it is trained, decided by the index field "+bad+": a remembered 'checked once' flag records that a check HAPPENED, not that the current quantizer is trained — a first all-zero vector leaves it untrained, and a quantizer replaced later (compression, snapshot load) is never trained, so every vector is stored as zeros", w.witness(wit)...)
}

// ---------------------------------------------------------------------------------------------------------------
// GRD-clockid: an id built from the clock uses its finest resolution.
// ---------------------------------------------------------------------------------------------------------------
func ruleGRDclockid(w *World, r *Report) {
	r.Doc("GRD-clockid", "an id that is formatted from the clock and handed to Engine.VAdd uses time.Now().UnixNano() (the convention of every generated id in the code base): with Unix()/UnixMilli() two operations in the same second produce the same id and the second one is refused or overwrites the first", 3)
	vadd := w.FuncObj("pkg/engine", "Engine.VAdd")
	if vadd == nil {
		r.Und("GRD-clockid", "anchor:Engine.VAdd", "", "anchor lost")
		return
	}
	n := 0
	for _, rel := range w.modulePkgRels() {
		for _, fn := range w.pkgSSAFuncs(rel) {
			k := 0
			for _, in := range findInstrs(fn, callsTo(vadd)) {
				c := in.(*ssa.Call)
				if len(c.Call.Args) < 3 {
					continue
				}
				idArg := c.Call.Args[2]
				if c.Call.IsInvoke() {
					idArg = c.Call.Args[1]
				}
				for _, root := range valueRoots(idArg) {
					sp, ok := root.(*ssa.Call)
					if !ok || !isCallTo(sp, "fmt", "Sprintf") {
						continue
					}
					coarse, fine, other := "", false, false
					for _, el := range callVariadicElems(sp) {
						for _, leaf := range arithLeaves(el, 0) {
							lc, ok := leaf.(*ssa.Call)
							if !ok {
								continue
							}
							o := calleeObj(&lc.Call)
							if o == nil || o.Pkg() == nil {
								continue
							}
							switch {
							case o.Pkg().Path() == "time" && o.Name() == "UnixNano":
								fine = true
							case o.Pkg().Path() == "time" && (o.Name() == "Unix" || o.Name() == "UnixMilli" || o.Name() == "UnixMicro" || o.Name() == "Second" || o.Name() == "Minute"):
								coarse = o.Name()
							case o.Pkg().Path() == "math/rand" || o.Pkg().Path() == "math/rand/v2" || o.Pkg().Path() == "crypto/rand" || o.Pkg().Path() == "sync/atomic" || strings.Contains(o.Pkg().Path(), "uuid"):
								other = true
							}
						}
					}
					if coarse == "" && !fine {
						continue
					}
					k++
					n++
					r.Cond(fine || other, "GRD-clockid", fmt.Sprintf("%s:clock-id#%d", shortFn(fn), k), w.Pos(sp.Pos()), "the generated id carries the nanosecond clock (or a counter / random part)", "the id handed to Engine.VAdd is formatted from time.Now()."+coarse+"() only: two operations within the same second (two evolutions of one memory, two cached answers of equal length) get the same id — the second VAdd is refused as a duplicate (and the error is dropped) or replaces the first record")
				}
			}
		}
	}
	if n == 0 {
		r.Und("GRD-clockid", "sites", "", "no clock-derived id reaches Engine.VAdd any more (analysis lost its anchors)")
	}
}

// callVariadicElems: the values stored into the variadic argument slice of a call.
func callVariadicElems(c *ssa.Call) []ssa.Value {
	var vals []ssa.Value
	for _, a := range c.Call.Args {
		sl, ok := a.(*ssa.Slice)
		if !ok {
			continue
		}
		al, ok := sl.X.(*ssa.Alloc)
		if !ok || al.Referrers() == nil {
			continue
		}
		for _, ref := range *al.Referrers() {
			if ia, ok := ref.(*ssa.IndexAddr); ok && ia.Referrers() != nil {
				for _, rr := range *ia.Referrers() {
					if s2, ok := rr.(*ssa.Store); ok && s2.Addr == ssa.Value(ia) {
						vals = append(vals, s2.Val)
					}
				}
			}
		}
	}
	return vals
}

// arithLeaves: the values an expression is computed from, through interfaces, conversions, arithmetic, phis and locals.
func arithLeaves(v ssa.Value, depth int) []ssa.Value {
	if depth > 10 {
		return []ssa.Value{v}
	}
	switch x := v.(type) {
	case *ssa.MakeInterface:
		return arithLeaves(x.X, depth+1)
	case *ssa.Convert:
		return arithLeaves(x.X, depth+1)
	case *ssa.ChangeType:
		return arithLeaves(x.X, depth+1)
	case *ssa.BinOp:
		return append(arithLeaves(x.X, depth+1), arithLeaves(x.Y, depth+1)...)
	case *ssa.Phi:
		var out []ssa.Value
		for _, e := range x.Edges {
			if e != v {
				out = append(out, arithLeaves(e, depth+1)...)
			}
		}
		return out
	case *ssa.UnOp:
		if x.Op == token.MUL {
			var out []ssa.Value
			for _, st := range cellStores(x.X) {
				out = append(out, arithLeaves(st.Val, depth+1)...)
			}
			if len(out) > 0 {
				return out
			}
		}
	}
	return []ssa.Value{v}
}

// ---------------------------------------------------------------------------------------------------------------
// GRD-fusion-norm: what is max-normalised is what is fused.
// The text scores are divided by their maximum; the maximum must be taken over the list that enters the fusion (after
// the allow-list has dropped the documents outside filter/graph scope), or a filtered-out document sets the scale.
// ---------------------------------------------------------------------------------------------------------------
func ruleGRDfusionNorm(w *World, r *Report) {
	r.Doc("GRD-fusion-norm", "normalizeTextScores is applied to the list that enters the fusion: its argument is the text-result variable the fusion reads, or a value that is then stored into that variable unchanged on every path (not a list that is still to be filtered by the allow-list)", 1)
	fi := w.Func("pkg/engine", "Engine.searchWithFusion")
	norm := w.FuncObj("pkg/engine", "normalizeTextScores")
	find := w.FuncObj("pkg/core", "DB.FindIDsByTextSearch")
	if fi == nil || norm == nil || find == nil {
		r.Und("GRD-fusion-norm", "anchor:searchWithFusion/normalizeTextScores/FindIDsByTextSearch", "", "anchor lost")
		return
	}
	root := w.SSAFunc(fi.Obj)
	all := append([]*ssa.Function{root}, closuresOf(root)...)
	// the text-result cell: the []SearchResult local that receives a store in the function that runs the text search
	var cell *ssa.Alloc
	for _, f := range all {
		if len(findInstrs(f, callsTo(find))) == 0 {
			continue
		}
		for _, b := range f.Blocks {
			for _, in := range b.Instrs {
				if st, ok := in.(*ssa.Store); ok {
					if al, ok := cellRoot(st.Addr).(*ssa.Alloc); ok && al.Parent() == root && strings.HasSuffix(al.Type().String(), "[]"+modPath+"/pkg/core/types.SearchResult") {
						cell = al
					}
				}
			}
		}
	}
	if cell == nil {
		r.Und("GRD-fusion-norm", "Engine.searchWithFusion:text-result-variable", w.Pos(fi.Decl.Pos()), "the variable that carries the text results from the search goroutine to the fusion was not found (shape not recognised)")
		return
	}
	isCellLoad := func(v ssa.Value) bool {
		u, ok := v.(*ssa.UnOp)
		return ok && u.Op == token.MUL && cellRoot(u.X) == ssa.Value(cell)
	}
	n := 0
	for _, f := range all {
		for _, in := range findInstrs(f, callsTo(norm)) {
			n++
			c := in.(*ssa.Call)
			arg := c.Call.Args[0]
			ok := isCellLoad(arg)
			for _, rt := range valueRoots(arg) {
				if isCellLoad(rt) {
					ok = true
				}
			}
			why := ""
			if !ok {
				ok = true
				stores := 0
				for _, b := range f.Blocks {
					for _, x := range b.Instrs {
						if st, isSt := x.(*ssa.Store); isSt && cellRoot(st.Addr) == ssa.Value(cell) {
							stores++
							if !sameVal(st.Val, arg) {
								ok = false
								why = "the list stored for the fusion at " + w.Pos(st.Pos()) + " is not the list that was normalised"
							}
						}
					}
				}
				if stores == 0 {
					ok, why = false, "the normalised list never reaches the fusion"
				}
			}
			r.Cond(ok, "GRD-fusion-norm", fmt.Sprintf("Engine.searchWithFusion:normalizeTextScores#%d:normalises-the-fused-list", n), w.Pos(c.Pos()), "the argument is the list the fusion reads", "the BM25 scores are max-normalised over a list that is not the one that enters the fusion ("+why+"): a document outside the filter or graph scope sets the maximum, so every in-scope text score — and with it the hybrid score alpha*sim + (1-alpha)*text — is scaled by a document the query excludes")
		}
	}
	if n == 0 {
		r.Bad("GRD-fusion-norm", "Engine.searchWithFusion:normalizeTextScores", w.Pos(fi.Decl.Pos()), "searchWithFusion no longer max-normalises the text scores before the fusion")
	}
}

// everyIterationPasses: in the innermost loop around `must`, every path from the loop header through the body back to
// the header passes `must` (no `continue`/skip on the way), apart from the edges in `blocked`. Returns the witness of a
// skipping path.
func everyIterationPasses(fn *ssa.Function, must ssa.Instruction, blocked map[edgeKey]bool) (bool, []ssa.Instruction, *ssa.BasicBlock) {
	h := innermostLoop(fn, must.Block())
	if h == nil {
		return false, nil, nil
	}
	body := naturalLoop(h)
	bl := map[edgeKey]bool{}
	for k, v := range blocked {
		bl[k] = v
	}
	// leave the loop = not a skipping path: block every edge out of the loop
	for b := range body {
		for si, s := range b.Succs {
			if !body[s] {
				bl[edgeKey{b, si}] = true
			}
		}
	}
	last := h.Instrs[len(h.Instrs)-1]
	target := func(in ssa.Instruction) bool { return in == h.Instrs[0] }
	found, wit := (pathQuery{fn: fn, target: target, avoid: func(in ssa.Instruction) bool { return in == must }, blocked: bl}).find(posOf(last))
	return !found, wit, h
}

// ---------------------------------------------------------------------------------------------------------------
// CDC-12: the snapshot carries every node of an index, tombstones included.
// Live nodes link through soft-deleted nodes that have not been vacuumed yet, and the entry point may be one.
// ---------------------------------------------------------------------------------------------------------------
func ruleCDC12(w *World, r *Report) {
	r.Doc("CDC-12", "DB.Snapshot writes a NodeSnapshot for every node the index handed out: the loop that fills the node map has no path around the insertion (only a nil node is skipped) — soft-deleted nodes stay in the snapshot, because live nodes still link through them and the entry point may be one", 1)
	fi := w.Func("pkg/core", "DB.Snapshot")
	if fi == nil {
		r.Und("CDC-12", "anchor:DB.Snapshot", "", "anchor lost")
		return
	}
	root := w.SSAFunc(fi.Obj)
	n := 0
	for _, f := range append([]*ssa.Function{root}, closuresOf(root)...) {
		for _, b := range f.Blocks {
			for _, in := range b.Instrs {
				mu, ok := in.(*ssa.MapUpdate)
				if !ok {
					continue
				}
				mt, ok := mu.Map.Type().Underlying().(*types.Map)
				if !ok || !strings.HasSuffix(mt.Elem().String(), "NodeSnapshot") {
					continue
				}
				n++
				// a nil node may be skipped
				blocked := map[edgeKey]bool{}
				for _, bb := range f.Blocks {
					for _, x := range bb.Instrs {
						bo, ok := x.(*ssa.BinOp)
						if !ok || (bo.Op != token.EQL && bo.Op != token.NEQ) || !(isNilConst(bo.X) || isNilConst(bo.Y)) {
							continue
						}
						t, fl := condEdges(bo)
						nilEdges := t
						if bo.Op == token.NEQ {
							nilEdges = fl
						}
						for _, e := range nilEdges {
							blocked[e] = true
						}
					}
				}
				ok2, wit, h := everyIterationPasses(f, mu, blocked)
				if h == nil {
					r.Und("CDC-12", fmt.Sprintf("DB.Snapshot:node-map-fill#%d", n), w.Pos(mu.Pos()), "the NodeSnapshot insertion is not inside a loop (shape not recognised)")
					continue
				}
				r.Cond(ok2, "CDC-12", fmt.Sprintf("DB.Snapshot:node-map-fill#%d:every-node-written", n), w.Pos(mu.Pos()), "every iteration of the node loop reaches the insertion", "DB.Snapshot skips some nodes of the index (a `continue` in the node loop — e.g. for soft-deleted nodes): live nodes still link through tombstones that were not vacuumed, so the restored graph has dangling links no vacuum repairs, and when the entry point was among the skipped nodes every search after the restart returns nothing", w.witness(wit)...)
			}
		}
	}
	if n == 0 {
		r.Und("CDC-12", "DB.Snapshot:node-map-fill", w.Pos(fi.Decl.Pos()), "no insertion into a map of NodeSnapshot found in DB.Snapshot (shape not recognised)")
	}
}

// ---------------------------------------------------------------------------------------------------------------
// GRD-stale-lookup: an inner map of the inverted index is not held across a call that prunes the index.
// removeOldIndexEntries deletes a key's value map when its last bitmap goes; a reference to that inner map read
// before the call is then detached from the index, and what is added to it is lost.
// ---------------------------------------------------------------------------------------------------------------
func ruleGRDstaleLookup(w *World, r *Report) {
	r.Doc("GRD-stale-lookup", "in pkg/core no inner map (or bitmap) looked up from the inverted / numeric / text index before a call that can delete entries of those maps (removeOldIndexEntries and the like) is used after that call: the reference may have been detached from the index by the pruning", 1)
	isIndexLevel := func(t types.Type) bool {
		mt, ok := t.Underlying().(*types.Map)
		if !ok {
			return false
		}
		e := mt.Elem().String()
		_, inner := mt.Elem().Underlying().(*types.Map)
		return inner || strings.HasSuffix(e, "roaring.Bitmap")
	}
	// pruners: functions of pkg/core that delete from an index-level map
	pruners := map[*types.Func]bool{}
	for _, fn := range w.pkgSSAFuncs("pkg/core") {
		if fn.Parent() != nil {
			continue
		}
		o, ok := fn.Object().(*types.Func)
		if !ok {
			continue
		}
		for _, b := range fn.Blocks {
			for _, in := range b.Instrs {
				c, ok := in.(*ssa.Call)
				if !ok {
					continue
				}
				if bi, ok := c.Call.Value.(*ssa.Builtin); ok && bi.Name() == "delete" && len(c.Call.Args) == 2 && isIndexLevel(c.Call.Args[0].Type()) {
					pruners[o] = true
				}
			}
		}
	}
	n, sites := 0, 0
	for _, fn := range w.pkgSSAFuncs("pkg/core") {
		self, _ := fn.Object().(*types.Func)
		isPrune := func(in ssa.Instruction) bool {
			c, ok := in.(*ssa.Call)
			if !ok {
				return false
			}
			o := calleeObj(&c.Call)
			return o != nil && pruners[o] && o != self
		}
		if len(findInstrs(fn, isPrune)) == 0 {
			continue
		}
		sites++
		k := 0
		for _, b := range fn.Blocks {
			for _, in := range b.Instrs {
				lk, ok := in.(*ssa.Lookup)
				if !ok || !isIndexLevel(lk.X.Type()) {
					continue
				}
				// the looked-up inner value (plain, or the first component of a comma-ok look-up)
				vals := []ssa.Value{lk}
				if lk.CommaOk && lk.Referrers() != nil {
					vals = nil
					for _, ref := range *lk.Referrers() {
						if ex, ok := ref.(*ssa.Extract); ok && ex.Index == 0 {
							vals = append(vals, ex)
						}
					}
				}
				k++
				n++
				bad := false
				var wit []ssa.Instruction
				reach, _ := (pathQuery{fn: fn, target: isPrune}).find(posOf(lk))
				if reach {
					for _, pc := range findInstrs(fn, isPrune) {
						if ok, _ := (pathQuery{fn: fn, target: func(x ssa.Instruction) bool { return x == pc }, avoid: func(x ssa.Instruction) bool { return x == ssa.Instruction(lk) }}).find(posOf(lk)); !ok {
							continue
						}
						isUse := func(x ssa.Instruction) bool {
							if x == pc {
								return false
							}
							for _, op := range x.Operands(nil) {
								for _, v := range vals {
									if *op == v {
										return true
									}
								}
							}
							return false
						}
						// a fresh look-up of the same map re-reads the index: not a use of the old reference
						// ... on a path that does not execute the look-up again (a new iteration re-reads the index)
						if found, wt := (pathQuery{fn: fn, target: isUse, avoid: func(x ssa.Instruction) bool { return x == ssa.Instruction(lk) }}).find(posOf(pc)); found {
							bad, wit = true, wt
						}
					}
				}
				r.Cond(!bad, "GRD-stale-lookup", fmt.Sprintf("%s:index-lookup#%d:not-held-across-pruning", shortFn(fn), k), w.Pos(lk.Pos()), "the looked-up inner map is not used after a call that prunes the index", "an inner map of the index is read before a call that may delete it from the index (removeOldIndexEntries drops a key's value map with its last bitmap) and written to afterwards: the write goes into a map the index no longer holds, so the new value is missing from the inverted index — an `=` filter on the new value misses the node", w.witness(wit)...)
			}
		}
	}
	r.Count("functions_that_call_a_pruner", sites)
	if sites == 0 {
		r.Und("GRD-stale-lookup", "sites", "", "no function of pkg/core calls an index-pruning helper any more (analysis lost its anchors)")
	}
}

// ---------------------------------------------------------------------------------------------------------------
// GRD-verbatim-key: the inverted index is asked for the value as the filter spells it.
// String, boolean and list-element values are indexed under their own text; re-formatting a value that happens to
// parse as a number ("1000000" → "1e+06", "10.0" → "10", "007" → "7") asks for a different string.
// ---------------------------------------------------------------------------------------------------------------
func ruleGRDverbatimKey(w *World, r *Report) {
	r.Doc("GRD-verbatim-key", "in DB.evaluateBooleanFilter the key of every look-up in a value→bitmap map of the inverted index is the value text taken from the filter, never the output of a number formatter (fmt.Sprint*, strconv.Format*) applied to the parsed number", 1)
	fi := w.Func("pkg/core", "DB.evaluateBooleanFilter")
	if fi == nil {
		r.Und("GRD-verbatim-key", "anchor:DB.evaluateBooleanFilter", "", "anchor lost")
		return
	}
	fn := w.SSAFunc(fi.Obj)
	n := 0
	for _, b := range fn.Blocks {
		for _, in := range b.Instrs {
			lk, ok := in.(*ssa.Lookup)
			if !ok {
				continue
			}
			mt, ok := lk.X.Type().Underlying().(*types.Map)
			if !ok || !isStringType(mt.Key()) || !strings.HasSuffix(mt.Elem().String(), "roaring.Bitmap") {
				continue
			}
			n++
			bad := ""
			for _, rt := range valueRoots(lk.Index) {
				if c, ok := rt.(*ssa.Call); ok {
					if o := calleeObj(&c.Call); o != nil && o.Pkg() != nil && (o.Pkg().Path() == "fmt" && strings.HasPrefix(o.Name(), "Sprint") || o.Pkg().Path() == "strconv" && strings.HasPrefix(o.Name(), "Format")) {
						bad = o.Pkg().Path() + "." + o.Name()
					}
				}
			}
			r.Cond(bad == "", "GRD-verbatim-key", fmt.Sprintf("DB.evaluateBooleanFilter:value-lookup#%d:key-as-written", n), w.Pos(lk.Pos()), "the look-up key is not a re-formatted number", "the `=` arm looks the value up under "+bad+"(parsed number) instead of the text the filter gives: strings that merely look numeric are indexed under their own spelling, so `code = '007'`, `sku = '1000000'` or `ver = '10.0'` ask for \"7\", \"1e+06\", \"10\" and miss every matching node")
		}
	}
	if n == 0 {
		r.Und("GRD-verbatim-key", "DB.evaluateBooleanFilter:value-lookup", w.Pos(fi.Decl.Pos()), "no look-up in a value→bitmap map found (shape not recognised)")
	}
}

// ---------------------------------------------------------------------------------------------------------------
// GRD-maporder: a choice between several candidates is not left to map iteration order.
// ---------------------------------------------------------------------------------------------------------------

// mapIterValues: values that come from one step of a map iteration (key or value of `for k, v := range m`).
func fromMapIteration(v ssa.Value, depth int) *ssa.Range {
	if depth > 8 {
		return nil
	}
	switch x := v.(type) {
	case *ssa.Extract:
		if nx, ok := x.Tuple.(*ssa.Next); ok && !nx.IsString {
			if rg, ok := nx.Iter.(*ssa.Range); ok {
				if _, isMap := rg.X.Type().Underlying().(*types.Map); isMap && x.Index > 0 {
					return rg
				}
			}
		}
	case *ssa.Phi:
		for _, e := range x.Edges {
			if e != v {
				if rg := fromMapIteration(e, depth+1); rg != nil {
					return rg
				}
			}
		}
	case *ssa.Convert:
		return fromMapIteration(x.X, depth+1)
	case *ssa.ChangeType:
		return fromMapIteration(x.X, depth+1)
	case *ssa.MakeInterface:
		return fromMapIteration(x.X, depth+1)
	case *ssa.Field:
		return fromMapIteration(x.X, depth+1)
	case *ssa.UnOp:
		if x.Op == token.MUL {
			for _, st := range cellStores(x.X) {
				if rg := fromMapIteration(st.Val, depth+1); rg != nil {
					return rg
				}
			}
		}
	}
	return nil
}

func ruleGRDmaporder(w *World, r *Report, specs [][2]string) {
	r.Doc("GRD-maporder", "the listed selection functions choose by a fixed priority list: some return hands out an element of a slice that is walked in order, and a key or value picked up from a map iteration (whose first match differs from run to run) is returned only after that walk has been exhausted", len(specs))
	for _, sp := range specs {
		fi := w.Func(sp[0], sp[1])
		if fi == nil {
			r.Und("GRD-maporder", "anchor:"+sp[1], "", "anchor lost")
			continue
		}
		fn := w.SSAFunc(fi.Obj)
		var fromSlice []*ssa.Return
		var fromMap []*ssa.Range
		for _, b := range fn.Blocks {
			rt, ok := b.Instrs[len(b.Instrs)-1].(*ssa.Return)
			if !ok {
				continue
			}
			for i := range rt.Results {
				v := retVal(rt, i)
				if rg := fromMapIteration(v, 0); rg != nil {
					fromMap = append(fromMap, rg)
					continue
				}
				for _, rootV := range valueRoots(v) {
					if ld, ok := rootV.(*ssa.UnOp); ok && ld.Op == token.MUL {
						if ia, ok := ld.X.(*ssa.IndexAddr); ok && (isSliceType(ia.X.Type()) || isArrayPtr(ia.X.Type())) {
							fromSlice = append(fromSlice, rt)
						}
					}
					if ix, ok := rootV.(*ssa.Index); ok {
						if _, isArr := ix.X.Type().Underlying().(*types.Array); isArr {
							fromSlice = append(fromSlice, rt)
						}
					}
				}
			}
		}
		bad, why := false, ""
		var at token.Pos
		if len(fromSlice) == 0 {
			bad, why = true, "no return hands out an element of an ordered priority list any more"
			if len(fromMap) > 0 {
				at = fromMap[0].Pos()
			}
		}
		// the exhausted-exit edges of the priority walks
		blocked := map[edgeKey]bool{}
		for _, rt := range fromSlice {
			if h := enclosingLoop(fn, rt.Block()); h != nil { // the return leaves the loop: counted to the body it comes from
				body := naturalLoop(h)
				for si, sc := range h.Succs {
					if !body[sc] {
						blocked[edgeKey{h, si}] = true
					}
				}
			}
		}
		for _, rg := range fromMap {
			rgI := ssa.Instruction(rg)
			if found, _ := (pathQuery{fn: fn, target: func(in ssa.Instruction) bool { return in == rgI }, blocked: blocked}).find(entryPos(fn)); found && !bad {
				bad, why, at = true, "a map iteration that supplies the result runs without the priority list having been exhausted", rg.Pos()
			}
		}
		pos := w.Pos(fi.Decl.Pos())
		if bad && at.IsValid() {
			pos = w.Pos(at)
		}
		r.Cond(!bad, "GRD-maporder", sp[1]+":priority-list-before-map-order", pos, fmt.Sprintf("%d return(s) follow the ordered list; %d map-order fallback(s) lie behind its exhaustion", len(fromSlice), len(fromMap)), sp[1]+" returns whichever matching entry a map iteration yields first ("+why+"): with two candidates present (documents carrying both 'content' and 'summary') the choice changes from call to call, so the same hybrid query is scored against different fields")
	}
}

func isArrayPtr(t types.Type) bool {
	p, ok := t.Underlying().(*types.Pointer)
	if !ok {
		return false
	}
	_, ok = p.Elem().Underlying().(*types.Array)
	return ok
}

// ---------------------------------------------------------------------------------------------------------------
// JRN-5: an operation that reports success has written its record.
// A "nothing to do" shortcut that returns nil before the journal write decides from one part of the state only (the
// forward edge is identical — the inverse edge, the weight of the reverse view, … were never looked at).
// ---------------------------------------------------------------------------------------------------------------
func ruleJRN5(w *World, r *Report) {
	r.Doc("JRN-5", "Engine.VLink and Engine.VUnlink name two edges (the relation and its inverse): a success return that lies before the journal write — a 'nothing to do' shortcut — is reachable only through a branch that looks at the inverse relation the request names; a shortcut decided from the forward edge alone acknowledges a request whose inverse half never happened", 2)
	jw := w.journalObj()
	if jw == nil {
		r.Und("JRN-5", "anchor:journal-write", "", "anchor lost")
		return
	}
	for _, name := range []string{"Engine.VLink", "Engine.VUnlink"} {
		fi := w.Func("pkg/engine", name)
		if fi == nil {
			r.Und("JRN-5", "anchor:"+name, "", "anchor lost")
			continue
		}
		fn := w.SSAFunc(fi.Obj)
		var inv *ssa.Parameter
		for _, p := range fn.Params {
			if strings.HasPrefix(strings.ToLower(p.Name()), "inverse") {
				inv = p
			}
		}
		if inv == nil { // by position: the last string parameter (index, source, target, relation, inverse relation)
			for _, p := range fn.Params {
				if isStringType(p.Type()) {
					inv = p
				}
			}
		}
		// the journal write, or the call of a phase function that cannot return without it
		helpers := w.extractedHelpers(fn)
		isJournal := func(in ssa.Instruction) bool {
			if callsTo(jw)(in) {
				return true
			}
			c, ok := in.(*ssa.Call)
			if !ok || c.Call.StaticCallee() == nil {
				return false
			}
			for _, h := range helpers {
				if c.Call.StaticCallee() == h && alwaysPerforms(h, callsTo(jw)) {
					return true
				}
			}
			return false
		}
		if inv == nil || len(findInstrs(fn, isJournal)) == 0 {
			r.Und("JRN-5", name+":shortcut-looks-at-the-inverse", w.Pos(fi.Decl.Pos()), "the inverse-relation parameter or the journal write was not found (shape not recognised)")
			continue
		}
		nres := fi.Obj.Type().(*types.Signature).Results().Len()
		okRet := func(in ssa.Instruction) bool {
			rt, ok := in.(*ssa.Return)
			return ok && len(rt.Results) == nres && isNilConst(retVal(rt, nres-1))
		}
		// edges of branches whose condition depends on the inverse parameter
		var dependsOnInv func(v ssa.Value, depth int) bool
		dependsOnInv = func(v ssa.Value, depth int) bool {
			if v == ssa.Value(inv) {
				return true
			}
			if depth > 10 {
				return false
			}
			in, ok := v.(ssa.Instruction)
			if !ok {
				return false
			}
			for _, op := range in.Operands(nil) {
				if *op != nil && dependsOnInv(*op, depth+1) {
					return true
				}
			}
			return false
		}
		blocked := map[edgeKey]bool{}
		for _, b := range fn.Blocks {
			if len(b.Instrs) == 0 {
				continue
			}
			if iff, ok := b.Instrs[len(b.Instrs)-1].(*ssa.If); ok && dependsOnInv(iff.Cond, 0) {
				blocked[edgeKey{b, 0}], blocked[edgeKey{b, 1}] = true, true
			}
		}
		found, wit := (pathQuery{fn: fn, target: okRet, avoid: isJournal, blocked: blocked}).find(entryPos(fn))
		r.Cond(!found, "JRN-5", name+":shortcut-looks-at-the-inverse", w.Pos(fi.Decl.Pos()), "no success return before the journal write is reachable without a test of the inverse relation", name+" can report success without having journaled (or applied) anything, on a path that never looks at "+inv.Name()+": an early return for a request it considers a no-op, judged from the forward edge alone — a link that names an inverse relation which does not exist yet is acknowledged, and the inverse edge is never created, now or after a restart", w.witness(wit)...)
	}
}

// ---------------------------------------------------------------------------------------------------------------
// GRD-reslice: `next := cur[:0]` is the in-place filter idiom — safe only while at most one element is written per
// element read. A traversal that appends a node's neighbours to it while still walking `cur` overwrites frontier
// entries it has not read yet.
// ---------------------------------------------------------------------------------------------------------------
func ruleGRDreslice(w *World, r *Report) {
	r.Doc("GRD-reslice", "in pkg/engine and pkg/core a slice obtained as x[:0] is never appended to inside a loop nested in the loop that is still reading x (the in-place filter idiom writes at most one element per element read; a frontier expansion writes a node's whole neighbourhood)", 1)
	n := 0
	for _, rel := range []string{"pkg/engine", "pkg/core", "pkg/rag"} {
		for _, fn := range w.pkgSSAFuncs(rel) {
			k := 0
			for _, b := range fn.Blocks {
				for _, in := range b.Instrs {
					sl, ok := in.(*ssa.Slice)
					if !ok || sl.High == nil || !isSliceType(sl.X.Type()) {
						continue
					}
					if c, ok := constInt(sl.High); !ok || c != 0 {
						continue
					}
					n++
					k++
					srcRoots := valueRoots(sl.X)
					sameSrc := func(v ssa.Value) bool {
						for _, a := range valueRoots(v) {
							for _, s := range srcRoots {
								if a == s || sameValue(a, s) {
									return true
								}
							}
						}
						return false
					}
					// loops that read elements of x
					var readLoops []*ssa.BasicBlock
					for _, bb := range fn.Blocks {
						for _, x := range bb.Instrs {
							if ia, ok := x.(*ssa.IndexAddr); ok && isSliceType(ia.X.Type()) && sameSrc(ia.X) {
								if h := innermostLoop(fn, bb); h != nil {
									readLoops = append(readLoops, h)
								}
							}
						}
					}
					bad := false
					var at token.Pos
					for _, bb := range fn.Blocks {
						for _, x := range bb.Instrs {
							c, ok := x.(*ssa.Call)
							if !ok {
								continue
							}
							if _, isApp := isBuiltinCall(c, "append"); !isApp || len(c.Call.Args) == 0 {
								continue
							}
							into := false
							for _, a := range valueRoots(c.Call.Args[0]) {
								if a == ssa.Value(sl) {
									into = true
								}
							}
							if !into {
								continue
							}
							ha := innermostLoop(fn, bb)
							if ha == nil {
								continue
							}
							for _, hr := range readLoops {
								if hr != ha && naturalLoop(hr)[ha] {
									bad, at = true, c.Pos()
								}
							}
						}
					}
					pos := w.Pos(sl.Pos())
					if bad {
						pos = w.Pos(at)
					}
					r.Cond(!bad, "GRD-reslice", fmt.Sprintf("%s:reslice-to-zero#%d:not-outpacing-its-reader", shortFn(fn), k), pos, "appends to the x[:0] slice stay in step with the loop reading x", "a slice obtained as x[:0] is filled inside a loop nested in the loop that still reads x: expanding one frontier node with two or more neighbours overwrites frontier entries that were not read yet — a node is never expanded and a next-level node is examined too early, so FindPath misses a path that exists or returns one that is not shortest")
				}
			}
		}
	}
	if n == 0 {
		r.Ok("GRD-reslice", "no-reslice-to-zero", "", "no x[:0] re-slice in the traversal packages")
	}
}

// ---------------------------------------------------------------------------------------------------------------
// GRD-freshcfg: a defaults constructor hands out maps of its own.
// A configuration struct is copied by value, its map fields are not: a package-level map returned by every call is
// shared by every index configured from the defaults, and customising one configuration rewrites all of them.
// ---------------------------------------------------------------------------------------------------------------
func ruleGRDfreshcfg(w *World, r *Report) {
	r.Doc("GRD-freshcfg", "every Default…Config constructor of the module fills the map-typed fields of the value it returns with maps made inside the call (a map literal / make), never with a package-level map", 1)
	n := 0
	for _, fi := range w.ModuleFuncs() {
		name := canonName(fi.Obj)
		if !strings.HasPrefix(name, "Default") || fi.Obj.Type().(*types.Signature).Recv() != nil {
			continue
		}
		sig := fi.Obj.Type().(*types.Signature)
		if sig.Results().Len() != 1 {
			continue
		}
		rtT := sig.Results().At(0).Type()
		if p, ok := rtT.Underlying().(*types.Pointer); ok {
			rtT = p.Elem()
		}
		st, ok := rtT.Underlying().(*types.Struct)
		if !ok {
			continue
		}
		hasMap := false
		for i := 0; i < st.NumFields(); i++ {
			if _, ok := st.Field(i).Type().Underlying().(*types.Map); ok {
				hasMap = true
			}
		}
		if !hasMap {
			continue
		}
		fn := w.SSAFunc(fi.Obj)
		if fn == nil {
			continue
		}
		n++
		bad := ""
		var at token.Pos
		for _, b := range fn.Blocks {
			for _, in := range b.Instrs {
				s2, ok := in.(*ssa.Store)
				if !ok {
					continue
				}
				if _, isMap := s2.Val.Type().Underlying().(*types.Map); !isMap {
					continue
				}
				for _, rootV := range valueRoots(s2.Val) {
					if ld, ok := rootV.(*ssa.UnOp); ok && ld.Op == token.MUL {
						if g, ok := ld.X.(*ssa.Global); ok {
							bad, at = g.Name(), s2.Pos()
						}
					}
				}
			}
			// returning the global struct itself
			if rt, ok := b.Instrs[len(b.Instrs)-1].(*ssa.Return); ok && len(rt.Results) == 1 {
				for _, rootV := range valueRoots(rt.Results[0]) {
					if ld, ok := rootV.(*ssa.UnOp); ok && ld.Op == token.MUL {
						if g, ok := ld.X.(*ssa.Global); ok {
							bad, at = g.Name(), rt.Pos()
						}
					}
				}
			}
		}
		pos := w.Pos(fi.Decl.Pos())
		if bad != "" {
			pos = w.Pos(at)
		}
		r.Cond(bad == "", "GRD-freshcfg", shortName(fi.Obj)+":maps-made-per-call", pos, "the map fields of the returned value are made inside the call", shortName(fi.Obj)+" puts the package-level map "+bad+" into the configuration it returns: the struct is copied by value but the map is shared, so customising the layers of one index (cfg.Layers[\"procedural\"] = …) changes half-life, decay and pinning of every other index that was configured from the defaults")
	}
	if n == 0 {
		r.Und("GRD-freshcfg", "constructors", "", "no Default… constructor returning a struct with a map field found (analysis lost its anchors)")
	}
}

// ---------------------------------------------------------------------------------------------------------------
// GRD-matchdist: a similarity is turned into "no match" only when it is not positive.
// The engine's cosine distance is 1 - dot with no clamp: for identical vectors the float32 dot product rounds above 1
// for a good share of inputs, the distance is slightly negative and the similarity slightly above 1. An upper bound
// on the similarity therefore rejects exactly the identical prompt.
// ---------------------------------------------------------------------------------------------------------------
func ruleGRDmatchdist(w *World, r *Report) {
	r.Doc("GRD-matchdist", "in proxy.matchDistance only a comparison of the similarity with 0 leads to the 'no match' (+Inf) return: a test against any other bound may clamp but not reject (a similarity just above 1, which float rounding produces for identical vectors, must still be the closest possible match)", 1)
	fi := w.Func("pkg/proxy", "matchDistance")
	if fi == nil {
		r.Und("GRD-matchdist", "anchor:proxy.matchDistance", "", "anchor lost")
		return
	}
	fn := w.SSAFunc(fi.Obj)
	n := 0
	bad := ""
	var at token.Pos
	for _, b := range fn.Blocks {
		bo, _, ok := condOf(b)
		if !ok {
			continue
		}
		for _, side := range []ssa.Value{bo.X, bo.Y} {
			c, ok := side.(*ssa.Const)
			if !ok || c.Value == nil {
				continue
			}
			if bt, ok := c.Type().Underlying().(*types.Basic); !ok || bt.Info()&types.IsFloat == 0 {
				continue
			}
			n++
			if f := c.Float64(); f != 0 {
				// a bound other than 0 is harmless when it only clamps; it must not lead to the "no match" return
				for _, sc := range b.Succs {
					for hop := 0; hop < 3 && sc != nil; hop++ {
						if rt, ok := sc.Instrs[len(sc.Instrs)-1].(*ssa.Return); ok {
							isInf := false
							for _, x := range sc.Instrs {
								if isCallTo(x, "math", "Inf") {
									isInf = true
								}
							}
							for _, res := range rt.Results {
								for _, leaf := range arithLeaves(res, 0) {
									if lc, ok := leaf.(*ssa.Call); ok && isCallTo(lc, "math", "Inf") {
										isInf = true
									}
									if cc, ok := leaf.(*ssa.Const); ok && cc.Value != nil {
										if bt, ok := cc.Type().Underlying().(*types.Basic); ok && bt.Info()&types.IsFloat != 0 && math.IsInf(cc.Float64(), 0) {
											isInf = true
										}
									}
								}
							}
							if isInf {
								bad, at = fmt.Sprint(f), bo.Pos()
							}
							break
						}
						if _, ok := sc.Instrs[len(sc.Instrs)-1].(*ssa.Jump); ok && len(sc.Succs) == 1 && len(sc.Instrs) <= 2 {
							sc = sc.Succs[0]
						} else {
							break
						}
					}
				}
			}
		}
	}
	if n == 0 {
		r.Und("GRD-matchdist", "proxy.matchDistance:similarity-tests", w.Pos(fi.Decl.Pos()), "no comparison of the similarity with a constant found (shape not recognised)")
		return
	}
	pos := w.Pos(fi.Decl.Pos())
	if bad != "" {
		pos = w.Pos(at)
	}
	r.Cond(bad == "", "GRD-matchdist", "proxy.matchDistance:similarity-tested-against-zero-only", pos, fmt.Sprintf("%d comparison(s) with a constant, none but the one with 0 rejects", n), "matchDistance tests the similarity against "+bad+": the cosine distance of a prompt to itself is 1 - dot, and the float32 dot product of a unit vector with itself rounds above 1 for many vectors, so the similarity is slightly above 1 — the bound turns the closest possible match into 'no match': a forbidden prompt sent verbatim passes the firewall, and an identical question misses the cache")
}

// ---------------------------------------------------------------------------------------------------------------
// GRD-pure-text: the text analysers keep no state between calls.
// ---------------------------------------------------------------------------------------------------------------
func ruleGRDpureText(w *World, r *Report) {
	r.Doc("GRD-pure-text", "no function of pkg/textanalyzer outside package initialisation writes package-level state, except a memo whose key contains every parameter its value is computed from (a store to a global, a delete, a counter, or a map/sync.Map entry whose value depends on something the key leaves out — e.g. the stemming function of the language — all make the output depend on what was analysed before)", 5)
	n := 0
	for _, fn := range w.pkgSSAFuncs("pkg/textanalyzer") {
		root := fn
		for root.Parent() != nil {
			root = root.Parent()
		}
		if root.Name() == "init" || strings.HasPrefix(root.Name(), "init#") || root.Synthetic != "" {
			continue
		}
		n++
		bad := ""
		var at token.Pos
		isGlobal := func(v ssa.Value) *ssa.Global {
			for depth := 0; depth < 6; depth++ {
				switch x := v.(type) {
				case *ssa.Global:
					return x
				case *ssa.UnOp:
					if x.Op != token.MUL {
						return nil
					}
					v = x.X
				case *ssa.FieldAddr:
					v = x.X
				case *ssa.IndexAddr:
					v = x.X
				default:
					return nil
				}
			}
			return nil
		}
		// a memo is no state as long as its key determines the value: every parameter the stored value is computed
		// from is also part of the key
		memoOK := func(key, val ssa.Value) bool {
			kd := paramDeps(key, map[ssa.Value]bool{}, 0)
			for p := range paramDeps(val, map[ssa.Value]bool{}, 0) {
				if !kd[p] {
					return false
				}
			}
			return true
		}
		for _, b := range fn.Blocks {
			for _, in := range b.Instrs {
				switch x := in.(type) {
				case *ssa.Store:
					if g := isGlobal(x.Addr); g != nil {
						bad, at = g.Name(), x.Pos()
					}
				case *ssa.MapUpdate:
					if g := isGlobal(x.Map); g != nil && !memoOK(x.Key, x.Value) {
						bad, at = g.Name(), x.Pos()
					}
				case *ssa.Call:
					if bi, ok := x.Call.Value.(*ssa.Builtin); ok && bi.Name() == "delete" && len(x.Call.Args) > 0 {
						if g := isGlobal(x.Call.Args[0]); g != nil {
							bad, at = g.Name(), x.Pos()
						}
					}
					if o := calleeObj(&x.Call); o != nil && o.Pkg() != nil && (o.Pkg().Path() == "sync" || o.Pkg().Path() == "sync/atomic") && len(x.Call.Args) > 0 {
						switch o.Name() {
						case "Store", "LoadOrStore", "Swap":
							if g := isGlobal(x.Call.Args[0]); g != nil && !(len(x.Call.Args) == 3 && shortName(o) != "" && strings.HasPrefix(shortName(o), "Map.") && memoOK(x.Call.Args[1], x.Call.Args[2])) {
								bad, at = g.Name(), x.Pos()
							}
						case "CompareAndSwap", "Delete", "LoadAndDelete", "Add":
							if g := isGlobal(x.Call.Args[0]); g != nil {
								bad, at = g.Name(), x.Pos()
							}
						}
					}
				}
			}
		}
		pos := w.Pos(fn.Pos())
		if bad != "" {
			pos = w.Pos(at)
		}
		r.Cond(bad == "", "GRD-pure-text", fnKey(fn)+":no-package-state-written", pos, "writes no package-level state", fnKey(fn)+" writes the package-level variable "+bad+": what an analyser returns for a text then depends on what was analysed before it in the same process (a stem remembered under the token alone is handed to the other language), so the same input no longer gives the same output")
	}
	if n == 0 {
		r.Und("GRD-pure-text", "functions", "", "no function found in pkg/textanalyzer (analysis lost its anchors)")
	}
}

// fnKey: a line-free key for a function or closure.
func fnKey(fn *ssa.Function) string {
	if fn.Parent() == nil {
		return shortFn(fn)
	}
	return strings.ReplaceAll(fnName(fn), " ", "")
}

// successEdges: the CFG edges taken only when call c returned a nil error (the siblings of its failure edges).
func successEdges(fn *ssa.Function, c *ssa.Call) map[edgeKey]bool {
	out := map[edgeKey]bool{}
	for e := range failureEdges(fn, c) {
		out[edgeKey{e.from, 1 - e.succ}] = true
	}
	return out
}

// ---------------------------------------------------------------------------------------------------------------
// EFF-create: a refused VCreate leaves the existing index alone.
// CreateVectorIndex fails with "already exists" when the name is taken — and then a look-up of the name FINDS an
// index: the old one. Whatever is applied after the create call must hang on its success, not on the index existing.
// ---------------------------------------------------------------------------------------------------------------
func ruleEFFcreate(w *World, r *Report) {
	r.Doc("EFF-create", "in Engine.VCreate every state-changing step after DB.CreateVectorIndex (a setter of the hnsw index, a journal write, the dirty counter) is reachable only over the success edge of that call: a create refused as a duplicate applies nothing of the refused request to the index that already has the name", 1)
	fi := w.Func("pkg/engine", "Engine.VCreate")
	create := w.FuncObj("pkg/core", "DB.CreateVectorIndex")
	jw := w.journalObj()
	if fi == nil || create == nil {
		r.Und("EFF-create", "anchor:Engine.VCreate/DB.CreateVectorIndex", "", "anchor lost")
		return
	}
	fn := w.SSAFunc(fi.Obj)
	calls := findInstrs(fn, callsTo(create))
	if len(calls) != 1 {
		r.Und("EFF-create", "Engine.VCreate:create-call", w.Pos(fi.Decl.Pos()), fmt.Sprintf("expected one call of DB.CreateVectorIndex, found %d", len(calls)))
		return
	}
	cc := calls[0].(*ssa.Call)
	isEffect := func(in ssa.Instruction) bool {
		c := callCommon(in)
		if c == nil {
			return false
		}
		o := calleeObj(c)
		if o == nil {
			return false
		}
		if jw != nil && o == jw {
			return true
		}
		if relPkg(o) == hnswPkg && o.Type().(*types.Signature).Recv() != nil && (strings.HasPrefix(o.Name(), "Set") || strings.HasPrefix(o.Name(), "Update")) {
			return true
		}
		if o.Pkg() != nil && o.Pkg().Path() == "sync/atomic" && strings.HasPrefix(o.Name(), "Add") {
			return true
		}
		return false
	}
	n := 0
	for _, e := range findInstrs(fn, isEffect) {
		ee := e
		// only the steps that come after the create call
		if reach, _ := (pathQuery{fn: fn, target: func(in ssa.Instruction) bool { return in == ee }}).find(posOf(cc)); !reach {
			continue
		}
		n++
		found, wit := (pathQuery{fn: fn, target: func(in ssa.Instruction) bool { return in == ee }, blocked: successEdges(fn, cc)}).find(posOf(cc))
		name := "step"
		if o := calleeObj(callCommon(e)); o != nil {
			name = shortName(o)
		}
		r.Cond(!found, "EFF-create", fmt.Sprintf("Engine.VCreate:after-create#%d:%s:only-on-success", n, name), w.Pos(e.Pos()), "reachable only over the err == nil edge of DB.CreateVectorIndex", "Engine.VCreate reaches "+name+" also when DB.CreateVectorIndex failed (the step hangs on the index being found, not on the create having succeeded): a create answered 'already exists' applies the refused request's maintenance, auto-link and memory settings to the EXISTING index and journals them — a 4xx answer that changed the database", w.witness(wit)...)
	}
	if n == 0 {
		r.Und("EFF-create", "Engine.VCreate:after-create", w.Pos(fi.Decl.Pos()), "no state-changing step found after the create call (shape not recognised)")
	}
}

// ---------------------------------------------------------------------------------------------------------------
// GRD-cascade-all: the delete cascade unlinks every edge of the deleted node.
// Whether the neighbour still has a vector says nothing about the edge: graph-only nodes (linked, never added),
// self edges and two linked nodes deleted together would all keep their edges to the dead node.
// ---------------------------------------------------------------------------------------------------------------
func ruleGRDcascadeAll(w *World, r *Report) {
	r.Doc("GRD-cascade-all", "in the delete cascade of Engine.VDelete every neighbour taken from the relation lists reaches the VUnlink of its edge: the neighbour loops have no path back to their header that goes around the unlink (leaving the loop on shutdown is not such a path)", 2)
	fi := w.Func("pkg/engine", "Engine.VDelete")
	unlink := w.FuncObj("pkg/engine", "Engine.VUnlink")
	if fi == nil || unlink == nil {
		r.Und("GRD-cascade-all", "anchor:Engine.VDelete/Engine.VUnlink", "", "anchor lost")
		return
	}
	root := w.SSAFunc(fi.Obj)
	n := 0
	scope := append([]*ssa.Function{root}, closuresOf(root)...)
	helpers := w.extractedHelpers(root) // the cascade as a method of its own, called by VDelete only
	for _, h := range helpers {
		scope = append(append(scope, h), closuresOf(h)...)
	}
	for _, f := range scope {
		for _, in := range findInstrs(f, callsTo(unlink)) {
			n++
			ok, wit, h := everyIterationPasses(f, in, nil)
			if h == nil {
				r.Und("GRD-cascade-all", fmt.Sprintf("Engine.VDelete:cascade-unlink#%d", n), w.Pos(in.Pos()), "the VUnlink of the cascade is not inside a loop over the neighbours (shape not recognised)")
				continue
			}
			r.Cond(ok, "GRD-cascade-all", fmt.Sprintf("Engine.VDelete:cascade-unlink#%d:every-neighbour-unlinked", n), w.Pos(in.Pos()), "every iteration of the neighbour loop reaches the unlink", "the delete cascade skips some neighbours (a `continue` before VUnlink — e.g. for neighbours that have no vector of their own): the edge between the deleted node and a graph-only node, a self edge, or the edge between two nodes deleted together is never unlinked, and graph queries keep returning the deleted node as a neighbour, now and after a restart", w.witness(wit)...)
		}
	}
	if n == 0 {
		r.Und("GRD-cascade-all", "Engine.VDelete:cascade-unlink", w.Pos(fi.Decl.Pos()), "no VUnlink found in Engine.VDelete or its closures (shape not recognised)")
	}
	// the edge lists the cascade works through are read after the node is gone from the index: a link that lands between
	// an earlier look-up and the delete would never be unlinked
	gar := w.FuncObj("pkg/core", "DB.GetAllRelations")
	if gar != nil {
		isDel := func(in ssa.Instruction) bool {
			c, ok := in.(*ssa.Call)
			return ok && c.Call.IsInvoke() && c.Call.Method.Name() == "Delete"
		}
		// a look-up made by an extracted helper happens where VDelete calls the helper
		looksUp := callsTo(gar)
		lookHelpers := map[*ssa.Function]bool{}
		for _, h := range helpers {
			for _, hf := range append([]*ssa.Function{h}, closuresOf(h)...) {
				if len(findInstrs(hf, callsTo(gar))) > 0 {
					lookHelpers[h] = true
				}
			}
		}
		if len(lookHelpers) > 0 {
			direct := looksUp
			looksUp = func(in ssa.Instruction) bool {
				if direct(in) {
					return true
				}
				c, ok := in.(*ssa.Call)
				return ok && lookHelpers[c.Call.StaticCallee()]
			}
		}
		if len(findInstrs(root, looksUp)) > 0 && len(findInstrs(root, isDel)) > 0 {
			ok, wit := mustPrecede(root, isDel, looksUp, nil)
			r.Cond(ok, "GRD-cascade-all", "Engine.VDelete:edges-looked-up-after-the-delete", w.Pos(fi.Decl.Pos()), "every GetAllRelations of the cascade lies behind the index delete", "VDelete reads the node's edge lists before the node is deleted from the index: a link that is applied after that look-up but before the delete takes effect is never unlinked — the deleted node stays a live neighbour, source and target, and appears on paths", w.witness(wit)...)
		}
	}
}

// ---------------------------------------------------------------------------------------------------------------
// GRD-dimension: the dimension of an index is not read from one designated node.
// Deletes are soft and never move the entry point: once the entry point's vector is deleted while others stay live, a
// dimension taken from it reads "unknown" (0) and every `dim > 0 && len != dim` guard switches off.
// ---------------------------------------------------------------------------------------------------------------
func ruleGRDdimension(w *World, r *Report) {
	r.Doc("GRD-dimension", "Index.GetDimension does not derive its answer from a node selected by a fixed id (the entry point, a constant): any live node must do, because the designated one may be soft-deleted while others are live — and a dimension of 0 switches the wrong-dimension guards of add/add-batch/search off", 1)
	fi := w.Func(hnswPkg, "Index.GetDimension")
	load := w.FuncObj(hnswPkg, "Index.loadNode")
	if fi == nil || load == nil {
		r.Und("GRD-dimension", "anchor:Index.GetDimension/loadNode", "", "anchor lost")
		return
	}
	fn := w.SSAFunc(fi.Obj)
	// clause: the dimension fixed by the first insert is answered before any scan for a live node (after the last
	// delete such a scan finds nothing, answers 0, and the callers' `dim > 0 && len != dim` guards are off)
	fixed := false
	for _, b := range fn.Blocks {
		rt, ok := b.Instrs[len(b.Instrs)-1].(*ssa.Return)
		if !ok || len(rt.Results) != 1 {
			continue
		}
		for _, rootV := range append(valueRoots(retVal(rt, 0)), retVal(rt, 0)) {
			ld, ok := rootV.(*ssa.UnOp)
			if !ok || ld.Op != token.MUL {
				continue
			}
			if fa, ok := ld.X.(*ssa.FieldAddr); ok {
				if _, f := structFieldName(fa.X.Type(), fa.Field); f == "vectorDim" {
					rtI := ssa.Instruction(rt)
					if reach, _ := (pathQuery{fn: fn, target: func(in ssa.Instruction) bool { return in == rtI }, avoid: callsTo(load)}).find(entryPos(fn)); reach {
						fixed = true
					}
				}
			}
		}
	}
	r.Cond(fixed, "GRD-dimension", "Index.GetDimension:dimension-survives-the-last-delete", w.Pos(fi.Decl.Pos()), "the dimension recorded by the first insert is returned before any scan for a live node", "GetDimension answers from a scan for a live node only: after every vector of the index has been deleted it returns 0 (\"unknown\"), the `dim > 0 && len(v) != dim` guards of add / add-batch / import switch off, and a vector of another dimension is accepted and cut or padded to the arena slot size the first insert fixed")
	n := 0
	bad := false
	var at token.Pos
	for _, in := range findInstrs(fn, callsTo(load)) {
		c := in.(*ssa.Call)
		n++
		idArg := c.Call.Args[len(c.Call.Args)-1]
		if isInduction(idArg) {
			continue // the id walks the node array
		}
		for _, leaf := range arithLeaves(idArg, 0) {
			switch x := leaf.(type) {
			case *ssa.Const:
				bad, at = true, c.Pos()
			case *ssa.Call:
				if o := calleeObj(&x.Call); o != nil && o.Pkg() != nil && o.Pkg().Path() == "sync/atomic" && o.Name() == "Load" && len(x.Call.Args) > 0 {
					if fa, ok := x.Call.Args[0].(*ssa.FieldAddr); ok {
						if _, f := structFieldName(fa.X.Type(), fa.Field); f == "entrypointID" {
							bad, at = true, c.Pos()
						}
					}
				}
			}
		}
	}
	if n == 0 || fixed {
		// no node is loaded at all, or only as a fallback for an index that never had an insert (vectorDim == 0: there is
		// no node to find either way) — nothing to check here
		r.Ok("GRD-dimension", "Index.GetDimension:no-designated-node", w.Pos(fi.Decl.Pos()), "the answer does not hang on a designated node")
		return
	}
	pos := w.Pos(fi.Decl.Pos())
	if bad {
		pos = w.Pos(at)
	}
	r.Cond(!bad, "GRD-dimension", "Index.GetDimension:no-designated-node", pos, fmt.Sprintf("%d node load(s), none by a fixed id", n), "GetDimension reads the dimension from the entry point (or another fixed id) only: deletes are soft and never move the entry point, so after the entry point's vector was deleted the dimension reads 0 although live vectors exist — the `dim > 0 && len(vector) != dim` guards of add, add-batch and search are off, a wrong-dimension request is answered 200 and the mangled vector is stored and journaled")
}

// isInduction: v (through conversions and +/- constants) is a loop counter: a phi one of whose edges is computed from itself.
func isInduction(v ssa.Value) bool {
	for depth := 0; depth < 6; depth++ {
		switch x := v.(type) {
		case *ssa.Convert:
			v = x.X
		case *ssa.ChangeType:
			v = x.X
		case *ssa.BinOp:
			if _, ok := constInt(x.Y); ok {
				v = x.X
			} else if _, ok := constInt(x.X); ok {
				v = x.Y
			} else {
				return false
			}
		case *ssa.Phi:
			for _, e := range x.Edges {
				if bo, ok := e.(*ssa.BinOp); ok && (bo.X == ssa.Value(x) || bo.Y == ssa.Value(x)) {
					return true
				}
			}
			return false
		default:
			return false
		}
	}
	return false
}

// paramDeps: the parameters and free variables of the enclosing function that v is computed from (through operands,
// call arguments, called function values, phis and memory-resident locals).
func paramDeps(v ssa.Value, seen map[ssa.Value]bool, depth int) map[ssa.Value]bool {
	out := map[ssa.Value]bool{}
	if v == nil || seen[v] || depth > 14 {
		return out
	}
	seen[v] = true
	switch x := v.(type) {
	case *ssa.Parameter:
		out[x] = true
		return out
	case *ssa.FreeVar:
		out[x] = true
		return out
	case *ssa.Const, *ssa.Global, *ssa.Function, *ssa.Builtin:
		return out
	case *ssa.UnOp:
		if x.Op == token.MUL {
			for _, st := range cellStores(x.X) {
				for k := range paramDeps(st.Val, seen, depth+1) {
					out[k] = true
				}
			}
		}
	}
	if in, ok := v.(ssa.Instruction); ok {
		for _, op := range in.Operands(nil) {
			if *op != nil {
				for k := range paramDeps(*op, seen, depth+1) {
					out[k] = true
				}
			}
		}
	}
	return out
}

// validated: what a nil error from g says about its parameter p — every path of g to a nil-error return takes an edge
// on which a comparison of p establishes the property (a validator: `if p > Max { return err }`).
func (t *taint) validated(g *ssa.Function, p *ssa.Parameter, depth int) (bool, bool) {
	sig := g.Signature
	nres := sig.Results().Len()
	if nres == 0 || !isErrorType(sig.Results().At(nres-1).Type()) || depth > 10 {
		return false, false
	}
	nnEdges, bdEdges := map[edgeKey]bool{}, map[edgeKey]bool{}
	for _, b := range g.Blocks {
		bo, neg, ok := condOf(b)
		if !ok {
			continue
		}
		for si := range b.Succs {
			fn, fb := t.factGives(cfact{cond: bo, holds: (si == 0) != neg}, p, nil, depth+1)
			if fn {
				nnEdges[edgeKey{b, si}] = true
			}
			if fb {
				bdEdges[edgeKey{b, si}] = true
			}
		}
	}
	okRet := func(in ssa.Instruction) bool {
		rt, ok := in.(*ssa.Return)
		return ok && len(rt.Results) == nres && isNilConst(retVal(rt, nres-1))
	}
	nn, _ := (pathQuery{fn: g, target: okRet, blocked: nnEdges}).find(entryPos(g))
	bd, _ := (pathQuery{fn: g, target: okRet, blocked: bdEdges}).find(entryPos(g))
	return len(nnEdges) > 0 && !nn, len(bdEdges) > 0 && !bd
}

// ---------------------------------------------------------------------------------------------------------------
// GRD-orphan: an insert looks at whether the entry point is a tombstone.
// The layer search hands back live nodes only and deletes never move the entry point: once every node reachable from it
// is deleted, a new node finds nothing to link to and would stay unreachable — as would every node added after it.
// ---------------------------------------------------------------------------------------------------------------
func ruleGRDorphan(w *World, r *Report) {
	r.Doc("GRD-orphan", "Index.addActive tests whether the current entry point is deleted (or gone) and, on that edge, makes the new node the entry point: an insert into a graph whose reachable nodes are all tombstones does not leave the new vector without any link and any way to be found", 1)
	fi := w.Func(hnswPkg, "Index.addActive")
	load := w.FuncObj(hnswPkg, "Index.loadNode")
	if fi == nil || load == nil {
		r.Und("GRD-orphan", "anchor:Index.addActive/loadNode", "", "anchor lost")
		return
	}
	fn := w.SSAFunc(fi.Obj)
	isEpField := func(v ssa.Value) bool {
		fa, ok := v.(*ssa.FieldAddr)
		if !ok {
			return false
		}
		_, f := structFieldName(fa.X.Type(), fa.Field)
		return f == "entrypointID"
	}
	isAtomic := func(in ssa.Instruction, name string) (*ssa.Call, bool) {
		c, ok := in.(*ssa.Call)
		if !ok {
			return nil, false
		}
		o := calleeObj(&c.Call)
		if o == nil || o.Pkg() == nil || o.Pkg().Path() != "sync/atomic" || o.Name() != name || len(c.Call.Args) == 0 {
			return nil, false
		}
		return c, true
	}
	// the entry point node: a node loaded by the id read from entrypointID
	isEpNode := func(v ssa.Value) bool {
		for _, rt := range valueRoots(v) {
			c, ok := rt.(*ssa.Call)
			if !ok {
				continue
			}
			if o := calleeObj(&c.Call); o == nil || o != load {
				continue
			}
			for _, leaf := range arithLeaves(c.Call.Args[len(c.Call.Args)-1], 0) {
				if lc, ok := isAtomic(leafInstr(leaf), "Load"); ok && isEpField(lc.Call.Args[0]) {
					return true
				}
			}
		}
		return false
	}
	// tests of that node's Deleted flag
	var tests []*ssa.Call
	for _, in := range findInstrs(fn, func(in ssa.Instruction) bool { _, ok := isAtomic(in, "Load"); return ok }) {
		c := in.(*ssa.Call)
		fa, ok := c.Call.Args[0].(*ssa.FieldAddr)
		if !ok {
			continue
		}
		if _, f := structFieldName(fa.X.Type(), fa.Field); f != "Deleted" {
			continue
		}
		if isEpNode(fa.X) {
			tests = append(tests, c)
		}
	}
	if len(tests) == 0 {
		r.Bad("GRD-orphan", "Index.addActive:entry-point-tombstone-replaced", w.Pos(fi.Decl.Pos()), "addActive never looks at whether the entry point is deleted: after every vector of an index was deleted (no vacuum yet) a newly added vector finds only tombstones, gets no link, and the entry point stays the tombstone — searches return nothing although VGet returns every vector, and every later insert ends up the same way")
		return
	}
	isEpStore := func(in ssa.Instruction) bool {
		c, ok := isAtomic(in, "Store")
		return ok && isEpField(c.Call.Args[0])
	}
	ok := false
	for _, t := range tests {
		whenDeleted, whenLive := condEdges(t)
		reachDel, reachLive := false, false
		for _, e := range whenDeleted {
			if f, _ := (pathQuery{fn: fn, target: isEpStore, avoid: isReturn}).find(ipos{e.from.Succs[e.succ], -1}); f {
				reachDel = true
			}
		}
		for _, e := range whenLive {
			// the store that follows on the live edge must not be the take-over (a later, unrelated store — the new
			// top level — is further down): look only as far as the next unlock of the index lock
			if f, _ := (pathQuery{fn: fn, target: isEpStore, avoid: func(in ssa.Instruction) bool {
				return isReturn(in) || isCallTo(in, "sync", "RWMutex.Unlock")
			}}).find(ipos{e.from.Succs[e.succ], -1}); f {
				reachLive = true
			}
		}
		if reachDel && !reachLive {
			ok = true
		}
	}
	r.Cond(ok, "GRD-orphan", "Index.addActive:entry-point-tombstone-replaced", w.Pos(tests[0].Pos()), "on the deleted edge of the entry point's Deleted test the new node is stored as entry point (and not on the live edge)", "addActive tests the entry point's Deleted flag but does not make the new node the entry point on the deleted edge (or does so on the live edge): an insert that finds only tombstones stays without any link and cannot be found by any search")
}

func leafInstr(v ssa.Value) ssa.Instruction {
	in, _ := v.(ssa.Instruction)
	return in
}

// debugTaintedIndexing lists slice and index expressions whose bounds are computed from a request-controlled integer
// (exploration aid for GRD-alloc's next sink class).
func debugTaintedIndexing(w *World) {
	t := &taint{w: w, memoP: map[*ssa.Parameter]*[2]bool{}, ctrlF: map[fieldKey]int{}, tameF: map[fieldKey]*[2]bool{}, ctrlP: map[*ssa.Parameter]int{}}
	for _, rel := range w.modulePkgRels() {
		for _, fn := range w.pkgSSAFuncs(rel) {
			for _, b := range fn.Blocks {
				for _, in := range b.Instrs {
					switch x := in.(type) {
					case *ssa.Slice:
						for _, v := range []ssa.Value{x.Low, x.High, x.Max} {
							if v != nil && t.controlled(v) {
								nn, bd := t.tamed(v, blockFacts(b), 0)
								fmt.Fprintf(os.Stderr, "SLICE %s %s %s nonneg=%v bounded=%v\n", shortFn(fn), w.Pos(x.Pos()), v, nn, bd)
							}
						}
					case *ssa.IndexAddr:
						if t.controlled(x.Index) {
							nn, bd := t.tamed(x.Index, blockFacts(b), 0)
							fmt.Fprintf(os.Stderr, "INDEX %s %s %s nonneg=%v bounded=%v\n", shortFn(fn), w.Pos(x.Pos()), x.Index, nn, bd)
						}
					case *ssa.Index:
						if t.controlled(x.Index) {
							nn, bd := t.tamed(x.Index, blockFacts(b), 0)
							fmt.Fprintf(os.Stderr, "INDEX %s %s %s nonneg=%v bounded=%v\n", shortFn(fn), w.Pos(x.Pos()), x.Index, nn, bd)
						}
					case *ssa.BinOp:
						if (x.Op == token.QUO || x.Op == token.REM) && isIntType(x.Y.Type()) && t.controlled(x.Y) {
							fmt.Fprintf(os.Stderr, "DIV %s %s %s\n", shortFn(fn), w.Pos(x.Pos()), x.Y)
						}
					case *ssa.Call:
						if o := calleeObj(&x.Call); o != nil && o.Pkg() != nil && (o.Pkg().Path() == "time" && (o.Name() == "NewTicker" || o.Name() == "Tick") || o.Pkg().Path() == "strings" && o.Name() == "Repeat" || o.Pkg().Path() == "bytes" && o.Name() == "Repeat") {
							for _, a := range x.Call.Args {
								if isIntType(a.Type()) && t.controlled(a) {
									fmt.Fprintf(os.Stderr, "CALL %s %s %s(%s)\n", shortFn(fn), w.Pos(x.Pos()), o.Name(), a)
								}
							}
						}
					}
				}
			}
		}
	}
}

// localFieldTamed: load reads field f of a struct that is a local variable of the function (the decoded request).
// The field's value at the read is whatever the decode left there, or a later store; a definition that is not tamed by
// itself is accepted when every path from it to the read, not passing another store into the field, takes an edge on
// which a comparison of the field establishes the missing property.
func (t *taint) localFieldTamed(load *ssa.UnOp, depth int) (bool, bool) {
	fa, ok := load.X.(*ssa.FieldAddr)
	if !ok {
		return false, false
	}
	al, ok := fa.X.(*ssa.Alloc)
	if !ok || al.Parent() != load.Parent() {
		return false, false
	}
	fn := al.Parent()
	sameCell := func(a ssa.Value) bool {
		f2, ok := a.(*ssa.FieldAddr)
		return ok && f2.X == ssa.Value(al) && f2.Field == fa.Field
	}
	isLoadOfCell := func(v ssa.Value) bool {
		u, ok := v.(*ssa.UnOp)
		return ok && u.Op == token.MUL && sameCell(u.X)
	}
	isStore := func(in ssa.Instruction) bool {
		st, ok := in.(*ssa.Store)
		return ok && sameCell(st.Addr)
	}
	// definitions: explicit stores, and every call the struct's address is handed to (the decode)
	var defs []ssa.Instruction
	for _, b := range fn.Blocks {
		for _, in := range b.Instrs {
			if isStore(in) {
				defs = append(defs, in)
				continue
			}
			if c := callCommon(in); c != nil {
				for _, a := range c.Args {
					if a == ssa.Value(al) {
						defs = append(defs, in)
					}
					if mi, ok := a.(*ssa.MakeInterface); ok && mi.X == ssa.Value(al) {
						defs = append(defs, in)
					}
				}
			}
		}
	}
	if len(defs) == 0 {
		return false, false
	}
	nnEdges, bdEdges := map[edgeKey]bool{}, map[edgeKey]bool{}
	for _, b := range fn.Blocks {
		bo, neg, ok := condOf(b)
		if !ok {
			continue
		}
		var lv ssa.Value
		if isLoadOfCell(bo.X) {
			lv = bo.X
		} else if isLoadOfCell(bo.Y) {
			lv = bo.Y
		} else {
			continue
		}
		if lv.(*ssa.UnOp).Block() != b {
			continue
		}
		between, seen := false, false
		for _, in := range b.Instrs {
			if in == lv.(ssa.Instruction) {
				seen = true
			} else if seen && (isStore(in) || containsInstr(defs, in)) {
				between = true
			}
		}
		if between {
			continue
		}
		for si := range b.Succs {
			fnn, fbd := t.factGives(cfact{cond: bo, holds: (si == 0) != neg}, lv, nil, depth+1)
			if fnn {
				nnEdges[edgeKey{b, si}] = true
			}
			if fbd {
				bdEdges[edgeKey{b, si}] = true
			}
		}
	}
	n, bd := true, true
	target := func(in ssa.Instruction) bool { return in == ssa.Instruction(load) }
	for _, d := range defs {
		dn, db := false, false
		if st, ok := d.(*ssa.Store); ok {
			dn, db = t.tamed(st.Val, blockFacts(st.Block()), depth+1)
		}
		if dn && db {
			continue
		}
		dd := d
		other := func(in ssa.Instruction) bool { return in != dd && isStore(in) }
		if !dn {
			if found, _ := (pathQuery{fn: fn, target: target, avoid: other, blocked: nnEdges}).find(posOf(d)); found {
				n = false
			}
		}
		if !db {
			if found, _ := (pathQuery{fn: fn, target: target, avoid: other, blocked: bdEdges}).find(posOf(d)); found {
				bd = false
			}
		}
	}
	return n, bd
}

func containsInstr(xs []ssa.Instruction, x ssa.Instruction) bool {
	for _, y := range xs {
		if y == x {
			return true
		}
	}
	return false
}

// sameCellLoads: a and b are two reads of the same memory-resident local with no store into it on any path from the
// first to the second.
func sameCellLoads(a, b ssa.Value) bool {
	ua, ok1 := a.(*ssa.UnOp)
	ub, ok2 := b.(*ssa.UnOp)
	if !ok1 || !ok2 || ua.Op != token.MUL || ub.Op != token.MUL || ua == ub || ua.Parent() != ub.Parent() {
		return false
	}
	ca, cb := cellRoot(ua.X), cellRoot(ub.X)
	if ca != cb {
		return false
	}
	if _, isAlloc := ca.(*ssa.Alloc); !isAlloc {
		return false
	}
	fn := ua.Parent()
	for _, st := range cellStores(ua.X) {
		if st.Parent() != fn {
			return false // written from another function (a closure): order unknown
		}
		s1 := ssa.Instruction(st)
		if r1, _ := (pathQuery{fn: fn, target: func(in ssa.Instruction) bool { return in == s1 }}).find(posOf(ua)); !r1 {
			continue
		}
		if r2, _ := (pathQuery{fn: fn, target: func(in ssa.Instruction) bool { return in == ssa.Instruction(ub) }}).find(posOf(st)); r2 {
			return false
		}
	}
	return true
}

// ---------------------------------------------------------------------------------------------------------------
// GRD-batchrounds: the bulk insert links its batch in rounds.
// The neighbour search only sees nodes that already have links. If the search for the whole batch runs before any
// link of the batch is committed, every new node attaches to the OLD graph only; the batch has no links among its own
// nodes and most of it cannot be reached (recall 0.52 on uniform data, 0.002 on a new cluster).
// ---------------------------------------------------------------------------------------------------------------
func ruleGRDbatchrounds(w *World, r *Report) {
	r.Doc("GRD-batchrounds", "in Index.addBatchInternal the neighbour search of the batch and the commit of its links run inside one common loop over a moving window of the batch's nodes: links of earlier nodes of the batch are committed before the neighbours of later ones are searched (searching for the whole batch first leaves the batch without links among its own nodes)", 1)
	fi := w.Func(hnswPkg, "Index.addBatchInternal")
	search := w.FuncObj(hnswPkg, "Index.searchLayerUnlocked")
	if fi == nil || search == nil {
		r.Und("GRD-batchrounds", "anchor:Index.addBatchInternal/searchLayerUnlocked", "", "anchor lost")
		return
	}
	root := w.SSAFunc(fi.Obj)
	// the closures (direct children of root) that search / that store into Connections
	var searchMC, commitMC []ssa.Instruction
	for _, b := range root.Blocks {
		for _, in := range b.Instrs {
			mc, ok := in.(*ssa.MakeClosure)
			if !ok {
				continue
			}
			cf := mc.Fn.(*ssa.Function)
			fs := append([]*ssa.Function{cf}, closuresOf(cf)...)
			for _, f := range fs {
				if len(findInstrs(f, callsTo(search))) > 0 {
					searchMC = append(searchMC, in)
				}
				for _, bb := range f.Blocks {
					for _, x := range bb.Instrs {
						st, ok := x.(*ssa.Store)
						if !ok {
							continue
						}
						ia, ok := st.Addr.(*ssa.IndexAddr)
						if !ok {
							continue
						}
						if ld, ok := ia.X.(*ssa.UnOp); ok && ld.Op == token.MUL {
							if fa, ok := ld.X.(*ssa.FieldAddr); ok {
								if _, fld := structFieldName(fa.X.Type(), fa.Field); fld == "Connections" {
									commitMC = append(commitMC, in)
								}
							}
						}
					}
				}
			}
		}
	}
	if len(searchMC) == 0 || len(commitMC) == 0 {
		r.Und("GRD-batchrounds", "Index.addBatchInternal:search-and-commit-in-one-loop", w.Pos(fi.Decl.Pos()), fmt.Sprintf("the search workers (%d) or the commit workers (%d) of the bulk path were not found (shape not recognised)", len(searchMC), len(commitMC)))
		return
	}
	// natural loops only (a block after a loop with a `break` is not inside it)
	loopsOf := func(b *ssa.BasicBlock) map[*ssa.BasicBlock]bool {
		out := map[*ssa.BasicBlock]bool{}
		for _, h := range root.Blocks {
			isHeader := false
			for _, p := range h.Preds {
				if h.Dominates(p) {
					isHeader = true
				}
			}
			if isHeader && naturalLoop(h)[b] {
				out[h] = true
			}
		}
		return out
	}
	var common *ssa.BasicBlock
	for _, s := range searchMC {
		ls := loopsOf(s.Block())
		for _, c := range commitMC {
			for h := range loopsOf(c.Block()) {
				// the innermost common loop: the one every other common header dominates
				if ls[h] && (common == nil || common.Dominates(h)) {
					common = h
				}
			}
		}
	}
	moving, firstWindowWhole := false, false
	if common != nil {
		debugAlloc("batchrounds: common loop header = block %d; search closures in %v, commit closures in %v", common.Index, blockIdx(searchMC), blockIdx(commitMC))
		body := naturalLoop(common)
		for b := range body {
			for _, in := range b.Instrs {
				sl, ok := in.(*ssa.Slice)
				if !ok || sl.Low == nil {
					continue
				}
				debugAlloc("batchrounds: slice %s of %s in block %d low=%s", sl.Name(), sl.X.Type(), b.Index, sl.Low)
				if !strings.HasSuffix(sl.X.Type().String(), "Node") {
					continue
				}
				for _, leaf := range append(valueRoots(sl.Low), sl.Low) {
					if p, ok := leaf.(*ssa.Phi); ok && p.Block() == common {
						moving = true
					}
				}
				// the first window is small: every header phi the upper bound is computed from enters the loop with a constant
				if sl.High != nil {
					for _, leaf := range arithLeaves(sl.High, 0) {
						if p, ok := leaf.(*ssa.Phi); ok && p.Block() == common {
							for i, e := range p.Edges {
								if !body[common.Preds[i]] {
									if _, isC := e.(*ssa.Const); !isC {
										firstWindowWhole = true
									}
								}
							}
						}
					}
				}
			}
		}
	}
	why := "the neighbour search for the batch and the commit of its links are not inside a common loop: every node of the batch is searched against the graph as it was before the batch"
	if common != nil && !moving {
		why = "the common loop does not move a window over the batch's nodes (no sub-slice of the node list whose start changes with the loop)"
	}
	if common != nil && moving && firstWindowWhole {
		why = "the first window does not start from a constant size (it spans the batch): there is one round only"
	}
	r.Cond(common != nil && moving && !firstWindowWhole, "GRD-batchrounds", "Index.addBatchInternal:search-and-commit-in-one-loop", w.Pos(searchMC[0].Pos()), "search and commit alternate over a moving window of the batch", "the bulk insert searches the neighbours of ALL new nodes before it commits any of their links ("+why+"): the search only sees linked nodes, so the batch attaches to the old graph alone, gets no links among its own nodes and keeps only the few in-links the old nodes retain after pruning — VAddBatch of 8000 uniform vectors into 500 gives recall@10 of 0.52, a batch that forms a new cluster 0.002 (single inserts: 1.0)")
}

func blockIdx(xs []ssa.Instruction) []int {
	var out []int
	for _, x := range xs {
		out = append(out, x.Block().Index)
	}
	return out
}

// naturalLoop: the natural loop of header h — h and every block from which a back-edge source of h can be reached
// without passing through h. (loopBlocks' "dominated by h and reaches h" also counts the blocks after an inner loop
// that get back to its header through the back edge of an OUTER loop.)
func naturalLoop(h *ssa.BasicBlock) map[*ssa.BasicBlock]bool {
	body := map[*ssa.BasicBlock]bool{h: true}
	var work []*ssa.BasicBlock
	for _, p := range h.Preds {
		if h.Dominates(p) && !body[p] {
			body[p] = true
			work = append(work, p)
		}
	}
	for len(work) > 0 {
		x := work[len(work)-1]
		work = work[:len(work)-1]
		for _, p := range x.Preds {
			if !body[p] {
				body[p] = true
				work = append(work, p)
			}
		}
	}
	return body
}

// innermostLoop: the header of the innermost natural loop that contains b (nil if none).
func innermostLoop(fn *ssa.Function, b *ssa.BasicBlock) *ssa.BasicBlock {
	var best *ssa.BasicBlock
	for _, h := range fn.Blocks {
		isHeader := false
		for _, p := range h.Preds {
			if h.Dominates(p) {
				isHeader = true
			}
		}
		if !isHeader || !naturalLoop(h)[b] {
			continue
		}
		if best == nil || best.Dominates(h) {
			best = h
		}
	}
	return best
}

// ---------------------------------------------------------------------------------------------------------------
// CDC-13: replay completes a node that the snapshot captured bare.
// A snapshot that runs while a VAdd is between its index insert and its metadata write restores the node without
// metadata, and the VADD record (shadow-buffered) is replayed on top: "already exists" must not end the matter.
// ---------------------------------------------------------------------------------------------------------------
func ruleCDC13(w *World, r *Report) {
	r.Doc("CDC-13", "in the apply phase of replayAOF the metadata of a VADD record can still be applied when adding its vector fails because the id already exists in the restored index: from the failure edge of the index's Add, DB.AddMetadata is reachable within the same iteration (through a look-up of the id)", 1)
	fi := w.Func("pkg/engine", "Engine.replayAOF")
	addMeta := w.FuncObj("pkg/core", "DB.AddMetadata")
	if fi == nil || addMeta == nil {
		r.Und("CDC-13", "anchor:Engine.replayAOF/DB.AddMetadata", "", "anchor lost")
		return
	}
	top := w.SSAFunc(fi.Obj)
	var adds []*ssa.Call
	// (the apply phase may be a function of its own, called by replayAOF alone)
	for _, f := range append([]*ssa.Function{top}, w.extractedHelpers(top)...) {
		for _, in := range findInstrs(f, func(in ssa.Instruction) bool {
			c, ok := in.(*ssa.Call)
			if !ok {
				return false
			}
			if c.Call.IsInvoke() {
				return c.Call.Method.Name() == "Add" && strings.HasSuffix(c.Call.Value.Type().String(), "VectorIndex")
			}
			o := calleeObj(&c.Call)
			return o != nil && shortName(o) == "Index.Add" && relPkg(o) == hnswPkg
		}) {
			adds = append(adds, in.(*ssa.Call))
		}
	}
	if len(adds) == 0 {
		r.Und("CDC-13", "Engine.replayAOF:vector-add", w.Pos(fi.Decl.Pos()), "the Add of replayed vectors was not found (shape not recognised)")
		return
	}
	for i, c := range adds {
		cc := c
		fn := cc.Parent()
		reach := false
		var wit []ssa.Instruction
		fe := failureEdges(fn, cc)
		for e := range fe {
			if f, wt := (pathQuery{fn: fn, target: callsTo(addMeta), blocked: successEdges(fn, cc), avoid: func(in ssa.Instruction) bool {
				_, next := in.(*ssa.Next) // the next entry of the map being replayed: another iteration
				return next || in == ssa.Instruction(cc)
			}}).find(ipos{e.from.Succs[e.succ], -1}); f {
				reach, wit = true, wt
			}
		}
		r.Cond(reach && len(fe) > 0, "CDC-13", fmt.Sprintf("Engine.replayAOF:vector-add#%d:metadata-also-when-the-node-exists", i+1), w.Pos(c.Pos()), "AddMetadata is reachable from the failure edge of Add", "replay drops the metadata of a VADD record whenever adding the vector fails — also when it fails because the snapshot already restored the node: a snapshot taken while that VAdd was between its index insert and its metadata write captured the node bare, so after the restart the acknowledged vector has no metadata and no filter selects it", w.witness(wit)...)
	}
}

// ---------------------------------------------------------------------------------------------------------------
// ORD-12: shadow writes go back into the log ahead of every write acknowledged after snapshot mode ended.
// Ending the mode and re-appending what it returns are two steps for a caller: a concurrent operation writes into the
// normal queue in between, its record lands in front of older shadow writes, and replay ends with the older value.
// ---------------------------------------------------------------------------------------------------------------
func ruleORD12(w *World, r *Report) {
	r.Doc("ORD-12", "the engine ends snapshot mode only through LazyAOFWriter.EndSnapshotModeRequeue (never EndSnapshotMode followed by its own re-append), and the writer's requeue arm appends the drained shadow writes to its normal buffer in its own goroutine before it answers: no write acknowledged after the mode ended can get into the log ahead of an older shadow write", 3)
	end := w.FuncObj("pkg/persistence", "LazyAOFWriter.EndSnapshotMode")
	requeue := w.FuncObj("pkg/persistence", "LazyAOFWriter.EndSnapshotModeRequeue")
	run := w.Func("pkg/persistence", "LazyAOFWriter.run")
	if end == nil || run == nil {
		r.Und("ORD-12", "anchor:LazyAOFWriter.EndSnapshotMode/run", "", "anchor lost")
		return
	}
	// (a) call sites outside the persistence package
	n := 0
	for _, fi := range w.ModuleFuncs() {
		if relPkg(fi.Obj) == "pkg/persistence" {
			continue
		}
		fn := w.SSAFunc(fi.Obj)
		if fn == nil {
			continue
		}
		for _, f := range append([]*ssa.Function{fn}, closuresOf(fn)...) {
			k := 0
			for _, in := range findInstrs(f, callsTo(end, requeue)) {
				n++
				k++
				isRq := requeue != nil && callsTo(requeue)(in)
				r.Cond(isRq, "ORD-12", fmt.Sprintf("%s:end-of-snapshot-mode#%d:requeued-by-the-writer", fnKey(f), k), w.Pos(in.Pos()), "ends the mode through EndSnapshotModeRequeue", fnKey(f)+" ends snapshot mode with EndSnapshotMode and re-appends the returned shadow writes itself: from the moment the mode has ended concurrent operations write straight into the normal queue, in front of shadow writes still waiting to be re-appended — the log then holds \"SET k new\" before the older \"SET k old\" and a clean restart brings back the older value")
			}
		}
	}
	if n == 0 {
		r.Und("ORD-12", "call-sites", "", "no call that ends snapshot mode found outside pkg/persistence (analysis lost its anchors)")
	}
	// (b) the writer's arm: on the requeue edge the drained writes are appended to the normal buffer before the answer is sent
	if requeue == nil {
		r.Bad("ORD-12", "LazyAOFWriter.run:requeue-arm", w.Pos(run.Decl.Pos()), "the writer has no EndSnapshotModeRequeue: a caller can only end snapshot mode and re-append the shadow writes in two separate steps")
		return
	}
	fn := w.SSAFunc(run.Obj)
	// the normal buffer: the []string cell that the flush closure writes to the underlying file; identified as the cell
	// appended to on the not-in-snapshot-mode path of the write arm — here simply: the []string cells of run() other than
	// the one whose contents are copied into the response
	var respCopySrc ssa.Value // the cell whose contents are copied for the response (the snapshot buffer)
	appendsTo := map[ssa.Value][]*ssa.Store{}
	for _, f := range append([]*ssa.Function{fn}, closuresOf(fn)...) { // (an arm's body may be a local function of run)
		for _, b := range f.Blocks {
			for _, in := range b.Instrs {
				st, ok := in.(*ssa.Store)
				if !ok {
					continue
				}
				c, ok := st.Val.(*ssa.Call)
				if !ok {
					continue
				}
				if _, isApp := isBuiltinCall(c, "append"); !isApp || len(c.Call.Args) != 2 {
					continue
				}
				if strings.HasSuffix(c.Type().String(), "[]string") {
					appendsTo[cellRoot(st.Addr)] = append(appendsTo[cellRoot(st.Addr)], st)
				}
			}
		}
	}
	isKindConst := func(v ssa.Value) bool {
		cc, isConst := v.(*ssa.Const)
		if !isConst {
			return false
		}
		nt, isNamed := cc.Type().(*types.Named)
		return isNamed && nt.Obj().Name() == "commandKind"
	}
	// the requeue append: an append to a []string cell whose second operand is a whole slice (not a one-element
	// variadic pack), reachable from the comparison of the command kind with cmdEndSnapshotRequeue only on its true edge
	ok := false
	var at token.Pos
	for cell, sts := range appendsTo {
		_ = cell
		for _, st := range sts {
			c := st.Val.(*ssa.Call)
			src := c.Call.Args[1]
			if sl, isSl := src.(*ssa.Slice); isSl {
				if _, fromPack := sl.X.(*ssa.Alloc); fromPack {
					continue // append(buf, x): one element
				}
			}
			// the arm's body is a local function with a "requeue" flag: the append lies on the true edge of a test of a bool
			// parameter, and every call feeds that parameter with a comparison of the command kind
			if lf := st.Parent(); lf != fn && lf.Parent() == fn {
				for _, bb := range lf.Blocks {
					if len(bb.Instrs) == 0 {
						continue
					}
					iff, isIf := bb.Instrs[len(bb.Instrs)-1].(*ssa.If)
					if !isIf {
						continue
					}
					p, isParam := iff.Cond.(*ssa.Parameter)
					if !isParam || !isBoolType(p.Type()) {
						continue
					}
					stI := ssa.Instruction(st)
					onTrue, _ := (pathQuery{fn: lf, target: func(in ssa.Instruction) bool { return in == stI }}).find(ipos{bb.Succs[0], -1})
					round, _ := (pathQuery{fn: lf, target: func(in ssa.Instruction) bool { return in == stI }, blocked: map[edgeKey]bool{{bb, 0}: true}}).find(entryPos(lf))
					if !onTrue || round {
						continue
					}
					idx := -1
					for i, hp := range lf.Params {
						if hp == p {
							idx = i
						}
					}
					fed, nsites := true, 0
					for _, site := range closureSites(fn, lf) {
						cs, isCall := site.(*ssa.Call)
						if !isCall || idx < 0 || idx >= len(cs.Call.Args) {
							fed = false
							continue
						}
						nsites++
						bo, isBo := cs.Call.Args[idx].(*ssa.BinOp)
						if !isBo || bo.Op != token.EQL || !(isKindConst(bo.X) || isKindConst(bo.Y)) {
							fed = false
						}
					}
					if fed && nsites > 0 {
						ok, at = true, st.Pos()
						respCopySrc = src
					}
				}
				continue
			}
			// guarded by a test of the command kind
			for _, bb := range fn.Blocks {
				bo, neg, isC := condOf(bb)
				if !isC || bo.Op != token.EQL && bo.Op != token.NEQ {
					continue
				}
				kconst := ""
				for _, side := range []ssa.Value{bo.X, bo.Y} {
					if cc, isConst := side.(*ssa.Const); isConst {
						if nt, isNamed := cc.Type().(*types.Named); isNamed && nt.Obj().Name() == "commandKind" {
							kconst = cc.Value.String()
						}
					}
				}
				if kconst == "" {
					continue
				}
				for si := range bb.Succs {
					holds := (si == 0) != neg
					if (bo.Op == token.EQL) != holds {
						continue // the "kind differs" edge
					}
					stI := ssa.Instruction(st)
					if f, _ := (pathQuery{fn: fn, target: func(in ssa.Instruction) bool { return in == stI }, avoid: func(in ssa.Instruction) bool { _, isSend := in.(*ssa.Send); return isSend }}).find(ipos{bb.Succs[si], -1}); f {
						ok, at = true, st.Pos()
						respCopySrc = src
					}
				}
			}
		}
	}
	_ = respCopySrc
	pos := w.Pos(run.Decl.Pos())
	if ok {
		pos = w.Pos(at)
	}
	r.Cond(ok, "ORD-12", "LazyAOFWriter.run:requeue-arm:appends-shadow-writes-to-the-queue", pos, "on the edge of the requeue command a whole slice is appended to a queue of the run goroutine before the answer is sent", "the writer's EndSnapshotModeRequeue arm does not put the shadow writes back into its queue before it answers: the writes acknowledged while snapshot mode was active are in neither the log nor the queue, and are lost at the next restart")
}

// ---------------------------------------------------------------------------------------------------------------
// ORD-13: a record is in the log file before the files it makes obsolete are destroyed.
// GRD-asyncrm: the engine deletes files only synchronously (under the locks of the operation that decided it).
// JRN-6: what hnsw.New refuses, VCreate refuses before it journals.
// ---------------------------------------------------------------------------------------------------------------

// destroysFiles: fn (or a callee inside the module, to depth 3) calls os.RemoveAll / os.Remove.
func destroysFiles(w *World, fn *ssa.Function, depth int, seen map[*ssa.Function]bool) bool {
	if fn == nil || seen[fn] || depth > 3 || len(fn.Blocks) == 0 {
		return false
	}
	seen[fn] = true
	for _, f := range append([]*ssa.Function{fn}, closuresOf(fn)...) {
		for _, b := range f.Blocks {
			for _, in := range b.Instrs {
				c := callCommon(in)
				if c == nil {
					continue
				}
				if o := calleeObj(c); o != nil && o.Pkg() != nil && o.Pkg().Path() == "os" && (o.Name() == "RemoveAll" || o.Name() == "Remove") {
					return true
				}
				if g := c.StaticCallee(); g != nil && inModule(g) && destroysFiles(w, g, depth+1, seen) {
					return true
				}
			}
		}
	}
	return false
}

func ruleORD13(w *World, r *Report) {
	r.Doc("ORD-13", "in an engine operation that journals a record and then calls into pkg/core code that deletes files (the arena of a dropped index), a successful AOF.Flush lies between the journal write and that call on every path: the record is in the log file before the files are gone", 1)
	jw := w.journalObj()
	flush := w.FuncObj("pkg/persistence", "LazyAOFWriter.Flush")
	sync := w.FuncObj("pkg/persistence", "LazyAOFWriter.Sync")
	if jw == nil || flush == nil {
		r.Und("ORD-13", "anchor:journal-write/Flush", "", "anchor lost")
		return
	}
	n := 0
	for _, fi := range w.journalingOps() {
		fn := w.SSAFunc(fi.Obj)
		if len(findInstrs(fn, callsTo(jw))) == 0 {
			continue
		}
		k := 0
		for _, in := range findInstrs(fn, func(in ssa.Instruction) bool {
			c, ok := in.(*ssa.Call)
			if !ok {
				return false
			}
			g := c.Call.StaticCallee()
			return g != nil && g.Pkg != nil && g.Pkg.Pkg != nil && strings.HasSuffix(g.Pkg.Pkg.Path(), "/pkg/core") && destroysFiles(w, g, 0, map[*ssa.Function]bool{})
		}) {
			// only calls that come after the journal write
			dI := in
			if reach, _ := (pathQuery{fn: fn, target: func(x ssa.Instruction) bool { return x == dI }}).find(posOf(findInstrs(fn, callsTo(jw))[0])); !reach {
				continue
			}
			n++
			k++
			// no path journal-write → destroyer that avoids a flush, and none over a flush's failure edge
			// a flush whose error nobody looks at does not count
			checkedFlush := func(x ssa.Instruction) bool {
				c, ok := x.(*ssa.Call)
				if !ok || len(failureEdges(fn, c)) == 0 {
					return false
				}
				if callsTo(flush, sync)(x) {
					return true
				}
				// a helper of the module that cannot return without having flushed, and hands the error on
				g := c.Call.StaticCallee()
				return g != nil && len(g.Blocks) > 0 && g.Signature.Results().Len() == 1 && isErrorType(g.Signature.Results().At(0).Type()) && cannotReturnWithout(g, callsTo(flush, sync))
			}
			found, wit := (pathQuery{fn: fn, target: func(x ssa.Instruction) bool { return x == dI }, avoid: checkedFlush}).find(posOf(findInstrs(fn, callsTo(jw))[0]))
			if !found {
				for _, fl := range findInstrs(fn, checkedFlush) {
					for e := range failureEdges(fn, fl.(*ssa.Call)) {
						if f2, w2 := (pathQuery{fn: fn, target: func(x ssa.Instruction) bool { return x == dI }, avoid: checkedFlush}).find(ipos{e.from.Succs[e.succ], -1}); f2 {
							found, wit = true, w2
						}
					}
				}
			}
			callee := shortName(calleeObj(callCommon(in)))
			r.Cond(!found, "ORD-13", fmt.Sprintf("%s:%s#%d:record-flushed-before-files-are-destroyed", shortName(fi.Obj), callee, k), w.Pos(in.Pos()), "a successful Flush lies between the journal write and the call that deletes files", shortName(fi.Obj)+" calls "+callee+", which deletes files, while its record may still sit in the writer's user-space buffer: the vectors live only in the arena files (the snapshot stores slot numbers), so a crash before the next periodic flush brings the dropped index back — listed by the snapshot, no VDROP in the log — with every vector zeroed", w.witness(wit)...)
		}
	}
	if n == 0 {
		r.Und("ORD-13", "sites", "", "no journaling operation calls file-deleting pkg/core code any more (analysis lost its anchors)")
	}
}

func ruleGRDasyncrm(w *World, r *Report) {
	r.Doc("GRD-asyncrm", "no goroutine started in pkg/engine deletes a file or directory whose path was fixed before it started (an argument or captured variable of the goroutine passed to os.Remove / os.RemoveAll): a deferred deletion by path name can hit the files of a same-named index created in the meantime", 1)
	n := 0
	for _, fn := range w.pkgSSAFuncs("pkg/engine") {
		k := 0
		for _, b := range fn.Blocks {
			for _, in := range b.Instrs {
				g, ok := in.(*ssa.Go)
				if !ok {
					continue
				}
				n++
				k++
				var target *ssa.Function
				if mc, ok := g.Call.Value.(*ssa.MakeClosure); ok {
					target, _ = mc.Fn.(*ssa.Function)
				} else {
					target = g.Call.StaticCallee()
				}
				// a deletion whose path was fixed before the goroutine started: handed in as an argument or captured
				bad := false
				if target != nil {
					for _, f := range append([]*ssa.Function{target}, closuresOf(target)...) {
						for _, bb := range f.Blocks {
							for _, x := range bb.Instrs {
								c := callCommon(x)
								if c == nil || len(c.Args) == 0 {
									continue
								}
								if o := calleeObj(c); o == nil || o.Pkg() == nil || o.Pkg().Path() != "os" || (o.Name() != "RemoveAll" && o.Name() != "Remove") {
									continue
								}
								for _, rt := range valueRoots(c.Args[0]) {
									switch rt.(type) {
									case *ssa.Parameter, *ssa.FreeVar:
										bad = true
									}
								}
							}
						}
					}
				}
				r.Cond(!bad, "GRD-asyncrm", fmt.Sprintf("%s:go#%d:deletes-no-files", fnKey(fn), k), w.Pos(g.Pos()), "the goroutine deletes no files", fnKey(fn)+" starts a goroutine that deletes files by path: when the index it belonged to is re-created under the same name before the goroutine runs, the goroutine deletes the arena of the NEW index — the process keeps using the unlinked mapping and after the next snapshot and restart every vector of that index reads as zeros")
			}
		}
	}
	if n == 0 {
		r.Und("GRD-asyncrm", "sites", "", "no go statement found in pkg/engine (analysis lost its anchors)")
	}
}

func ruleJRN6(w *World, r *Report) {
	r.Doc("JRN-6", "Engine.VCreate calls every exported Validate… function of pkg/core/hnsw, and returns on its failure edge, before it writes the VCREATE record: a create that hnsw.New would refuse for its parameters never reaches the log (where it would register the name on replay and mask a later valid create)", 2)
	fi := w.Func("pkg/engine", "Engine.VCreate")
	jw := w.journalObj()
	if fi == nil || jw == nil {
		r.Und("JRN-6", "anchor:Engine.VCreate/journal-write", "", "anchor lost")
		return
	}
	fn := w.SSAFunc(fi.Obj)
	n := 0
	for _, v := range w.ModuleFuncs() {
		if relPkg(v.Obj) != hnswPkg || !strings.HasPrefix(v.Obj.Name(), "Validate") || !v.Obj.Exported() || v.Obj.Type().(*types.Signature).Recv() != nil {
			continue
		}
		// validators of the parameters New takes: (m, efConstruction, metric, precision), returning an error
		vs := v.Obj.Type().(*types.Signature)
		if vs.Results().Len() != 1 || !isErrorType(vs.Results().At(0).Type()) {
			continue
		}
		okParams := vs.Params().Len() > 0
		for i := 0; i < vs.Params().Len(); i++ {
			ts := vs.Params().At(i).Type().String()
			if !(isIntType(vs.Params().At(i).Type()) || strings.HasSuffix(ts, "distance.DistanceMetric") || strings.HasSuffix(ts, "distance.PrecisionType")) {
				okParams = false
			}
		}
		if !okParams {
			continue
		}
		n++
		// the validator itself, or a function that cannot return without having asked it (and looks at the answer)
		direct := callsTo(v.Obj)
		wraps := map[*ssa.Function]bool{}
		asks := func(in ssa.Instruction) bool {
			if direct(in) {
				return true
			}
			c, ok := in.(*ssa.Call)
			if !ok {
				return false
			}
			g := c.Call.StaticCallee()
			if g == nil || len(g.Blocks) == 0 || g.Signature.Results().Len() != 1 || !isErrorType(g.Signature.Results().At(0).Type()) {
				return false
			}
			if known, seen := wraps[g]; seen {
				return known
			}
			isWrap := cannotReturnWithout(g, direct)
			wraps[g] = isWrap
			return isWrap
		}
		ok, wit := precedesWithSuccess(fn, asks, callsTo(jw))
		r.Cond(ok && len(findInstrs(fn, asks)) > 0, "JRN-6", "Engine.VCreate:"+v.Obj.Name()+":before-the-journal-write", w.Pos(fi.Decl.Pos()), "the validator has succeeded on every path to the journal write", "Engine.VCreate journals VCREATE without hnsw."+v.Obj.Name()+" having accepted the request: a create that hnsw.New then refuses stays in the log, registers the name on replay, a later valid create of the same name is skipped as a duplicate — and the index with all its vectors is gone after a clean restart", w.witness(wit)...)
	}
	if n == 0 {
		r.Bad("JRN-6", "Engine.VCreate:validators", w.Pos(fi.Decl.Pos()), "pkg/core/hnsw exports no Validate… function: VCreate cannot refuse what hnsw.New refuses before it journals")
	}
}

// cannotReturnWithout: g is a thin wrapper of an error-returning step — it calls it, looks at (or returns) its answer, and
// has no way to a return that goes round the call, other than over the failure edge of another call.
func cannotReturnWithout(g *ssa.Function, direct func(ssa.Instruction) bool) bool {
	inner := findInstrs(g, direct)
	if len(inner) == 0 {
		return false
	}
	for _, ic := range inner {
		c, ok := ic.(*ssa.Call)
		if !ok {
			return false
		}
		if refs := c.Referrers(); refs == nil || len(*refs) == 0 {
			return false // the answer is thrown away
		}
	}
	failed := map[edgeKey]bool{}
	for _, oc := range findInstrs(g, func(x ssa.Instruction) bool { _, ok := x.(*ssa.Call); return ok }) {
		for e := range failureEdges(g, oc.(*ssa.Call)) {
			failed[e] = true
		}
	}
	// a return that hands back the step's own answer, or an error made on the spot (a refusal of g's own, before or after
	// the step), is not a way round the step: what matters is that g cannot report SUCCESS without it
	refusal := func(rt *ssa.Return) bool {
		n := len(rt.Results)
		if n == 0 || !isErrorType(rt.Results[n-1].Type()) {
			return false
		}
		for _, l := range phiLeaves(retVal(rt, n-1)) {
			if ex, ok := l.(*ssa.Extract); ok {
				l = ex.Tuple
			}
			switch x := l.(type) {
			case *ssa.MakeInterface:
				continue
			case *ssa.Call:
				if direct(x) {
					continue
				}
				if o := calleeObj(&x.Call); o != nil && o.Pkg() != nil && (o.Pkg().Path() == "fmt" && o.Name() == "Errorf" || o.Pkg().Path() == "errors" && o.Name() == "New") {
					continue
				}
			}
			return false
		}
		return true
	}
	skip, _ := (pathQuery{fn: g, target: func(x ssa.Instruction) bool { rt, ok := x.(*ssa.Return); return ok && !refusal(rt) }, avoid: direct, blocked: failed}).find(entryPos(g))
	return !skip
}

// sameLen: a and b are both len(x) (or both cap(x)) of the same slice value — a length does not change between two
// reads of an SSA value.
func sameLen(a, b ssa.Value) bool {
	ca, ok1 := a.(*ssa.Call)
	cb, ok2 := b.(*ssa.Call)
	if !ok1 || !ok2 || ca == cb {
		return false
	}
	ba, ok1 := ca.Call.Value.(*ssa.Builtin)
	bb, ok2 := cb.Call.Value.(*ssa.Builtin)
	if !ok1 || !ok2 || ba.Name() != bb.Name() || (ba.Name() != "len" && ba.Name() != "cap") || len(ca.Call.Args) != 1 || len(cb.Call.Args) != 1 {
		return false
	}
	return ca.Call.Args[0] == cb.Call.Args[0]
}

// ---------------------------------------------------------------------------------------------------------------
// EFF-evolve-flag: the flag VEvolve puts on the superseded version is not inherited by the next one.
// ---------------------------------------------------------------------------------------------------------------
func ruleEFFevolveFlag(w *World, r *Report) {
	r.Doc("EFF-evolve-flag", "Engine.VEvolve copies the old node's metadata to the new version only on the edge where the key differs from the marker it sets on the old version itself (_is_historical): a second evolution of the same node does not create a version that is historical from birth", 1)
	fi := w.Func("pkg/engine", "Engine.VEvolve")
	setMeta := w.FuncObj("pkg/engine", "Engine.VSetMetadata")
	if fi == nil || setMeta == nil {
		r.Und("EFF-evolve-flag", "anchor:Engine.VEvolve/VSetMetadata", "", "anchor lost")
		return
	}
	fn := w.SSAFunc(fi.Obj)
	// the marker: the constant key of the map literal handed to VSetMetadata
	marker := ""
	for _, in := range findInstrs(fn, callsTo(setMeta)) {
		c := in.(*ssa.Call)
		for _, rt := range valueRoots(c.Call.Args[len(c.Call.Args)-1]) {
			mk, ok := rt.(*ssa.MakeMap)
			if !ok || mk.Referrers() == nil {
				continue
			}
			for _, ref := range *mk.Referrers() {
				if mu, ok := ref.(*ssa.MapUpdate); ok {
					if k, ok := constString(mu.Key); ok {
						marker = k
					}
				}
			}
		}
	}
	if marker == "" {
		r.Und("EFF-evolve-flag", "Engine.VEvolve:marker", w.Pos(fi.Decl.Pos()), "the marker VEvolve sets on the old version was not found (shape not recognised)")
		return
	}
	// copies: map updates whose key comes from a map iteration (the old node's metadata)
	n := 0
	for _, b := range fn.Blocks {
		for _, in := range b.Instrs {
			mu, ok := in.(*ssa.MapUpdate)
			if !ok {
				continue
			}
			rg := fromMapIteration(mu.Key, 0)
			if rg == nil {
				continue
			}
			// only the copy of the OLD node's metadata (the value ranged over comes from a field load, not a parameter)
			fromParam := false
			for _, rt := range valueRoots(rg.X) {
				if _, ok := rt.(*ssa.Parameter); ok {
					fromParam = true
				}
			}
			if fromParam {
				continue
			}
			n++
			isCmp := func(x ssa.Instruction) bool {
				bo, ok := x.(*ssa.BinOp)
				if !ok || (bo.Op != token.EQL && bo.Op != token.NEQ) {
					return false
				}
				for _, pair := range [][2]ssa.Value{{bo.X, bo.Y}, {bo.Y, bo.X}} {
					if s, ok := constString(pair[1]); ok && s == marker && sameVal(pair[0], mu.Key) {
						return true
					}
				}
				return false
			}
			muI := ssa.Instruction(mu)
			ok2 := false
			var wit []ssa.Instruction
			for _, cmp := range findInstrs(fn, isCmp) {
				bo := cmp.(*ssa.BinOp)
				t, f := condEdges(bo)
				eq := t
				if bo.Op == token.NEQ {
					eq = f
				}
				reach := false
				for _, e := range eq {
					if fnd, wt := (pathQuery{fn: fn, target: func(x ssa.Instruction) bool { return x == muI }, avoid: func(x ssa.Instruction) bool { _, nx := x.(*ssa.Next); return nx }}).find(ipos{e.from.Succs[e.succ], -1}); fnd {
						reach, wit = true, wt
					}
				}
				if len(eq) > 0 && !reach {
					ok2 = true
				}
			}
			r.Cond(ok2, "EFF-evolve-flag", fmt.Sprintf("Engine.VEvolve:metadata-copy#%d:marker-not-copied", n), w.Pos(mu.Pos()), "the copy is not reached on the edge where the key equals "+marker, "VEvolve copies every metadata key of the old node to the new version, including the "+marker+" flag it sets itself on superseded versions: evolving the same node a second time creates a 'current' version that is historical from birth and drops out of every `"+marker+" != 'true'` search", w.witness(wit)...)
		}
	}
	if n == 0 {
		r.Und("EFF-evolve-flag", "Engine.VEvolve:metadata-copy", w.Pos(fi.Decl.Pos()), "no copy of the old node's metadata found (shape not recognised)")
	}
}

// ---------------------------------------------------------------------------------------------------------------
// GRD-levelmult: the level multiplier 1/ln(m) is finite.
// ---------------------------------------------------------------------------------------------------------------
func ruleGRDlevelmult(w *World, r *Report) {
	r.Doc("GRD-levelmult", "hnsw.New divides by math.Log(m) only after hnsw.ValidateParams has accepted m, and ValidateParams returns an error for m == 1 (ln 1 = 0: the multiplier would be +Inf, the drawn level overflows and the first insert panics while holding the index lock)", 2)
	nf := w.Func(hnswPkg, "New")
	vf := w.Func(hnswPkg, "ValidateParams")
	if nf == nil || vf == nil {
		r.Und("GRD-levelmult", "anchor:hnsw.New/ValidateParams", "", "anchor lost")
		return
	}
	fn := w.SSAFunc(nf.Obj)
	// (a) every division by Log(m) in New lies behind a successful ValidateParams
	isLogDiv := func(in ssa.Instruction) bool {
		bo, ok := in.(*ssa.BinOp)
		if !ok || bo.Op != token.QUO {
			return false
		}
		c, ok := bo.Y.(*ssa.Call)
		return ok && isCallTo(c, "math", "Log")
	}
	if len(findInstrs(fn, isLogDiv)) == 0 {
		r.Ok("GRD-levelmult", "hnsw.New:log-division-behind-validation", w.Pos(nf.Decl.Pos()), "New no longer divides by math.Log(m)")
	} else {
		ok, wit := precedesWithSuccess(fn, callsTo(vf.Obj), isLogDiv)
		r.Cond(ok, "GRD-levelmult", "hnsw.New:log-division-behind-validation", w.Pos(nf.Decl.Pos()), "ValidateParams has succeeded on every path to the division", "hnsw.New computes 1/math.Log(m) without ValidateParams having accepted m: for m == 1 the multiplier is +Inf, the level drawn for the first vector overflows, the insert panics in make while it holds the index lock, and the index hangs every later caller", w.witness(wit)...)
	}
	// (b) ValidateParams: no nil return is reachable on the m == 1 edge
	vfn := w.SSAFunc(vf.Obj)
	var mParam *ssa.Parameter
	if len(vfn.Params) > 0 {
		mParam = vfn.Params[0]
	}
	rejects := false
	for _, b := range vfn.Blocks {
		bo, neg, ok := condOf(b)
		if !ok || mParam == nil {
			continue
		}
		for si := range b.Succs {
			op, o, ok := factAbout(cfact{cond: bo, holds: (si == 0) != neg}, mParam)
			if !ok {
				continue
			}
			c, isC := constInt(o)
			// the edge on which m == 1 is possible ... must not reach a nil return: find the edge that pins m to 1 or below 2
			pins := isC && (op == token.EQL && c == 1 || op == token.LSS && c == 2 || op == token.LEQ && c == 1)
			if !pins {
				continue
			}
			nres := vfn.Signature.Results().Len()
			okRet := func(in ssa.Instruction) bool {
				rt, ok := in.(*ssa.Return)
				return ok && len(rt.Results) == nres && isNilConst(retVal(rt, nres-1))
			}
			if found, _ := (pathQuery{fn: vfn, target: okRet}).find(ipos{b.Succs[si], -1}); !found {
				rejects = true
			}
		}
	}
	r.Cond(rejects, "GRD-levelmult", "hnsw.ValidateParams:rejects-m-equal-1", w.Pos(vf.Decl.Pos()), "on the m == 1 edge no nil return is reachable", "hnsw.ValidateParams accepts m == 1: ln(1) = 0 makes the level multiplier +Inf — the first insert into such an index panics while holding the index lock and wedges it")
}

// ---------------------------------------------------------------------------------------------------------------
// CDC-14: a snapshot captures the node slice, the id map and the id counter at one cut.
// ---------------------------------------------------------------------------------------------------------------
func ruleCDC14(w *World, r *Report) {
	r.Doc("CDC-14", "Index.SnapshotData copies the node slice, the external-id map, the id counter, the entry point and the top level within one critical section of metaMu (no RUnlock between them): Add registers a node in the slice and in the map under one lock, so a vector added during the snapshot is in both copies or in neither", 4)
	fi := w.Func(hnswPkg, "Index.SnapshotData")
	if fi == nil {
		r.Und("CDC-14", "anchor:Index.SnapshotData", "", "anchor lost")
		return
	}
	fn := w.SSAFunc(fi.Obj)
	isRUnlock := func(in ssa.Instruction) bool {
		return isCallTo(in, "sync", "RWMutex.RUnlock") || isCallTo(in, "sync", "RWMutex.Unlock")
	}
	// the copy of the node slice
	var nodeCopy ssa.Instruction
	for _, in := range findInstrs(fn, func(in ssa.Instruction) bool { _, ok := isBuiltinCall(in, "copy"); return ok }) {
		c := in.(*ssa.Call)
		if strings.HasSuffix(c.Call.Args[0].Type().String(), "[]*"+modPath+"/"+hnswPkg+".Node") {
			nodeCopy = in
		}
	}
	if nodeCopy == nil {
		r.Und("CDC-14", "Index.SnapshotData:node-slice-copy", w.Pos(fi.Decl.Pos()), "the copy of the node slice was not found (shape not recognised)")
		return
	}
	fieldRead := func(name string) func(ssa.Instruction) bool {
		return func(in ssa.Instruction) bool {
			switch x := in.(type) {
			case *ssa.Range:
				for _, rt := range append(valueRoots(x.X), x.X) {
					if ld, ok := rt.(*ssa.UnOp); ok && ld.Op == token.MUL {
						if fa, ok := ld.X.(*ssa.FieldAddr); ok {
							if _, f := structFieldName(fa.X.Type(), fa.Field); f == name {
								return true
							}
						}
					}
				}
			case *ssa.Call:
				if o := calleeObj(&x.Call); o != nil && o.Pkg() != nil && o.Pkg().Path() == "sync/atomic" && o.Name() == "Load" && len(x.Call.Args) > 0 {
					if fa, ok := x.Call.Args[0].(*ssa.FieldAddr); ok {
						if _, f := structFieldName(fa.X.Type(), fa.Field); f == name {
							return true
						}
					}
				}
			}
			return false
		}
	}
	for _, name := range []string{"externalToInternalID", "nodeCounter", "entrypointID", "maxLevel"} {
		reads := findInstrs(fn, fieldRead(name))
		if len(reads) == 0 {
			r.Und("CDC-14", "Index.SnapshotData:"+name, w.Pos(fi.Decl.Pos()), "no read of "+name+" found in SnapshotData (shape not recognised)")
			continue
		}
		ok := true
		var wit []ssa.Instruction
		for _, rd := range reads {
			rdI := rd
			// same critical section: reachable from the node copy (or the other way round) without an unlock in between
			f1, _ := (pathQuery{fn: fn, target: func(in ssa.Instruction) bool { return in == rdI }, avoid: isRUnlock}).find(posOf(nodeCopy))
			f2, _ := (pathQuery{fn: fn, target: func(in ssa.Instruction) bool { return in == nodeCopy }, avoid: isRUnlock}).find(posOf(rd))
			if !f1 && !f2 {
				ok = false
				wit = []ssa.Instruction{rd}
			}
		}
		r.Cond(ok, "CDC-14", "Index.SnapshotData:"+name+":read-at-the-cut-of-the-node-slice", w.Pos(reads[0].Pos()), "read in the critical section that copies the node slice", "SnapshotData reads "+name+" in another critical section than the one that copies the node slice: a vector added in between is in the saved id map (or counted) without a saved node — after a restart its replayed VADD is refused as \"already exists\" and the acknowledged vector can neither be read nor added again", w.witness(wit)...)
	}
}

// ---------------------------------------------------------------------------------------------------------------
// ORD-14: a closed log writer refuses writes deterministically.
// select { case <-closedCh: …; case writeCh <- req: … } picks at random when both are ready, and after Close both are.
// ---------------------------------------------------------------------------------------------------------------
func ruleORD14(w *World, r *Report) {
	r.Doc("ORD-14", "in LazyAOFWriter.Write every select that can enqueue the write (a send case) together with a receive from the closed channel is preceded on every path by a non-blocking test of the closed channel: after Close the closed case is ready AND the queue has room, and a single select would acknowledge about half of the writes", 1)
	fi := w.Func("pkg/persistence", "LazyAOFWriter.Write")
	if fi == nil {
		r.Und("ORD-14", "anchor:LazyAOFWriter.Write", "", "anchor lost")
		return
	}
	fn := w.SSAFunc(fi.Obj)
	isClosedRecv := func(st *ssa.SelectState) bool {
		if st.Dir != types.RecvOnly {
			return false
		}
		for _, rt := range append(valueRoots(st.Chan), st.Chan) {
			if ld, ok := rt.(*ssa.UnOp); ok && ld.Op == token.MUL {
				if fa, ok := ld.X.(*ssa.FieldAddr); ok {
					if _, f := structFieldName(fa.X.Type(), fa.Field); strings.Contains(strings.ToLower(f), "closed") {
						return true
					}
				}
			}
		}
		return false
	}
	n := 0
	for _, in := range findInstrs(fn, func(in ssa.Instruction) bool { _, ok := in.(*ssa.Select); return ok }) {
		sel := in.(*ssa.Select)
		hasSend, hasClosed := false, false
		for _, st := range sel.States {
			if st.Dir == types.SendOnly {
				hasSend = true
			}
			if isClosedRecv(st) {
				hasClosed = true
			}
		}
		if !hasSend {
			continue
		}
		n++
		if !hasClosed {
			// a bare send (or one raced against something else): the closed test must still come first
		}
		pre := func(x ssa.Instruction) bool {
			s2, ok := x.(*ssa.Select)
			if !ok || s2.Blocking || s2 == sel {
				return false
			}
			for _, st := range s2.States {
				if isClosedRecv(st) {
					return true
				}
			}
			return false
		}
		selI := ssa.Instruction(sel)
		// the same test made by a helper of the package: a function that only polls the closed channel, and whose answer
		// decides a branch one side of which cannot reach the enqueue
		inline := pre
		pre = func(x ssa.Instruction) bool {
			if inline(x) {
				return true
			}
			c, ok := x.(*ssa.Call)
			if !ok {
				return false
			}
			g := c.Call.StaticCallee()
			if g == nil || g.Pkg != fn.Pkg || len(g.Blocks) == 0 {
				return false
			}
			polls := false
			for _, gi := range findInstrs(g, func(y ssa.Instruction) bool { _, ok := y.(*ssa.Select); return ok }) {
				s2 := gi.(*ssa.Select)
				for _, st := range s2.States {
					if st.Dir == types.SendOnly {
						return false
					}
					if !s2.Blocking && isClosedRecv(st) {
						polls = true
					}
				}
			}
			if !polls {
				return false
			}
			for _, ref := range *c.Referrers() {
				v, _ := ref.(ssa.Value)
				if u, ok := ref.(*ssa.UnOp); ok && u.Op == token.NOT && u.Referrers() != nil {
					for _, r2 := range *u.Referrers() {
						ref = r2
					}
				}
				_ = v
				iff, ok := ref.(*ssa.If)
				if !ok {
					continue
				}
				for _, succ := range iff.Block().Succs {
					if reach, _ := (pathQuery{fn: fn, target: func(y ssa.Instruction) bool { return y == selI }}).find(ipos{succ, -1}); !reach {
						return true
					}
				}
			}
			return false
		}
		found, wit := (pathQuery{fn: fn, target: func(x ssa.Instruction) bool { return x == selI }, avoid: pre}).find(entryPos(fn))
		r.Cond(!found, "ORD-14", fmt.Sprintf("LazyAOFWriter.Write:enqueue#%d:closed-tested-first", n), w.Pos(sel.Pos()), "a non-blocking test of the closed channel precedes the enqueueing select", "LazyAOFWriter.Write decides between 'closed' and 'enqueue' in one select: after Close both cases are ready (the closed channel is closed, the queue has room) and select picks at random — about half of the writes issued after Engine.Close are acknowledged, change memory and are in no log", w.witness(wit)...)
	}
	if n == 0 {
		r.Und("ORD-14", "LazyAOFWriter.Write:enqueue", w.Pos(fi.Decl.Pos()), "no select with a send case found in Write (shape not recognised)")
	}
}

// ---------------------------------------------------------------------------------------------------------------
// LCK-10: delete and metadata read-modify-write exclude each other per node.
// ---------------------------------------------------------------------------------------------------------------
// okReturn: a return of fn that does not report failure — its last result is not the constant false and not a non-nil error.
func okReturn(fn *ssa.Function) func(ssa.Instruction) bool {
	return func(in ssa.Instruction) bool {
		rt, isRet := in.(*ssa.Return)
		if !isRet {
			return false
		}
		if len(rt.Results) == 0 {
			return true
		}
		last := rt.Results[len(rt.Results)-1]
		if c, isConst := last.(*ssa.Const); isConst && c.Value != nil && types.Identical(c.Type().Underlying(), types.Typ[types.Bool]) {
			return constant.BoolVal(c.Value)
		}
		if types.Identical(last.Type(), types.Universe.Lookup("error").Type()) {
			return isNilConst(last)
		}
		return true
	}
}

func ruleLCK10(w *World, r *Report) {
	r.Doc("LCK-10", "Engine.VDelete removes the node and its metadata while it holds the node's metadata shard lock (getMetadataLockShard), the lock VSetMetadata and VReinforce hold over their read-modify-write; and those two look the node up again after they have the lock, before they write: a write-back cannot put metadata and index entries back for a node a concurrent delete has removed", 3)
	shard := w.FuncObj("pkg/engine", "Engine.getMetadataLockShard")
	delMeta := w.FuncObj("pkg/core", "DB.DeleteMetadata")
	addMeta := w.FuncObj("pkg/core", "DB.AddMetadata")
	getID := w.FuncObj(hnswPkg, "Index.GetInternalID")
	if shard == nil || delMeta == nil || addMeta == nil || getID == nil {
		r.Und("LCK-10", "anchor:getMetadataLockShard/DeleteMetadata/AddMetadata/GetInternalID", "", "anchor lost")
		return
	}
	isShardLock := func(name string) func(ssa.Instruction) bool {
		return func(in ssa.Instruction) bool {
			c, ok := in.(*ssa.Call)
			if !ok || !isCallTo(c, "sync", "Mutex."+name) || len(c.Call.Args) == 0 {
				return false
			}
			for _, rt := range append(valueRoots(c.Call.Args[0]), c.Call.Args[0]) {
				if sc, ok := rt.(*ssa.Call); ok && calleeObj(&sc.Call) == shard {
					return true
				}
			}
			return false
		}
	}
	// (a) VDelete
	if fi := w.Func("pkg/engine", "Engine.VDelete"); fi != nil {
		fn := w.SSAFunc(fi.Obj)
		isDel := func(in ssa.Instruction) bool {
			c, ok := in.(*ssa.Call)
			if !ok {
				return false
			}
			if c.Call.IsInvoke() && c.Call.Method.Name() == "Delete" {
				return true
			}
			return calleeObj(&c.Call) == delMeta
		}
		// the deletes may sit in a function literal of VDelete (lock, defer unlock, delete): each function that holds a
		// delete must take the lock itself, before the delete
		nDels := 0
		ok := true
		var wit []ssa.Instruction
		scope := append([]*ssa.Function{fn}, closuresOf(fn)...)
		for _, h := range w.extractedHelpers(fn) { // (a phase of the delete may be a function of its own)
			scope = append(append(scope, h), closuresOf(h)...)
		}
		for _, f := range scope {
			dels := findInstrs(f, isDel)
			nDels += len(dels)
			if len(dels) > 0 && len(findInstrs(f, isShardLock("Lock"))) == 0 {
				ok = false
			}
			for _, d := range dels {
				dI := d
				// reached only with the lock taken and not yet released
				if fd, wt := (pathQuery{fn: f, target: func(in ssa.Instruction) bool { return in == dI }, avoid: isShardLock("Lock")}).find(entryPos(f)); fd {
					ok, wit = false, wt
				}
				for _, u := range findInstrs(f, isShardLock("Unlock")) {
					if fd, wt := (pathQuery{fn: f, target: func(in ssa.Instruction) bool { return in == dI }, avoid: isShardLock("Lock")}).find(posOf(u)); fd {
						ok, wit = false, wt
					}
				}
			}
		}
		if nDels < 2 {
			ok = false
		}
		r.Cond(ok, "LCK-10", "Engine.VDelete:deletes-under-the-metadata-shard-lock", w.Pos(fi.Decl.Pos()), "the index delete and the metadata delete are reached only with the node's metadata lock held", "Engine.VDelete removes the node or its metadata without holding the node's metadata shard lock: a VSetMetadata or VReinforce that looked the node up just before writes its merged metadata back afterwards — metadata, inverted-index and text-index entries for a node that no longer exists; filters and text search return an id that VGet reports missing, BM25 statistics count a deleted document", w.witness(wit)...)
	} else {
		r.Und("LCK-10", "anchor:Engine.VDelete", "", "anchor lost")
	}
	// (b) the two writers
	for _, name := range []string{"Engine.VSetMetadata", "Engine.VReinforce"} {
		fi := w.Func("pkg/engine", name)
		if fi == nil {
			r.Und("LCK-10", "anchor:"+name, "", "anchor lost")
			continue
		}
		fn := w.SSAFunc(fi.Obj)
		nLocks := 0
		ok := true
		var wit []ssa.Instruction
		// (the per-node critical section may be a function literal of the operation)
		for _, f := range append([]*ssa.Function{fn}, closuresOf(fn)...) {
			locks := findInstrs(f, isShardLock("Lock"))
			nLocks += len(locks)
			// the look-up / lock / look-up-again sequence as a helper of its own that returns with the lock held
			// (lockNode(id) (…, lock, ok)): inside it, every way from the Lock to a return that does not say "not found"
			// passes the second look-up
			viaHelper := 0
			for _, in := range findInstrs(f, func(in ssa.Instruction) bool {
				c, isCall := in.(*ssa.Call)
				if !isCall || c.Call.StaticCallee() == nil || !inModule(c.Call.StaticCallee()) {
					return false
				}
				o, _ := c.Call.StaticCallee().Object().(*types.Func)
				return o != nil && !o.Exported() && relPkg(o) == "pkg/engine" && len(findInstrs(c.Call.StaticCallee(), isShardLock("Lock"))) > 0
			}) {
				h := in.(*ssa.Call).Call.StaticCallee()
				found := okReturn(h)
				for _, l := range findInstrs(h, isShardLock("Lock")) {
					if fd, wt := (pathQuery{fn: h, target: found, avoid: callsTo(getID)}).find(posOf(l)); fd {
						ok, wit = false, wt
					}
				}
				viaHelper++
			}
			nLocks += viaHelper
			if len(locks) == 0 && viaHelper == 0 && len(findInstrs(f, callsTo(addMeta))) > 0 {
				ok = false // a write-back in a function that does not take the lock itself
			}
			for _, l := range locks {
				if fd, wt := (pathQuery{fn: f, target: callsTo(addMeta), avoid: callsTo(getID)}).find(posOf(l)); fd {
					ok, wit = false, wt
				}
			}
		}
		if nLocks == 0 {
			ok = false
		}
		r.Cond(ok, "LCK-10", name+":node-looked-up-again-under-the-lock", w.Pos(fi.Decl.Pos()), "between taking the lock and the write-back the node is looked up again", name+" writes the merged metadata back without looking the node up again after it has the metadata lock: a delete that finished in between (it holds the same lock) is overwritten by the write-back — the deleted node gets its metadata and index entries back", w.witness(wit)...)
	}
}

// ---------------------------------------------------------------------------------------------------------------
// CDC-15: a link / unlink record applied twice changes nothing.
// A write that runs while a snapshot or compaction takes its state is in that state and in the shadow buffer; the
// edge store keeps history, so re-applying is not harmless by itself. Versions carry the timestamps of the records that
// created and ended them: that is what identifies "this record has been applied".
// ---------------------------------------------------------------------------------------------------------------
func ruleCDC15(w *World, r *Report) {
	r.Doc("CDC-15", "DB.AddEdge changes the edge lists only after a test that no version of the edge was created at the record's timestamp, and the soft branch of DB.RemoveEdge ends the active version only when no version already ends at the record's timestamp (both views): a GLINK/GUNLINK record replayed on top of a snapshot or compacted log that already contains its effect is a no-op", 3)
	// a comparison of the named GraphEdge/ReverseEdge field with a parameter, in fn or in a pkg/core helper it calls
	cmpField := func(top *ssa.Function, field string) []*ssa.BinOp {
		var out []*ssa.BinOp
		// (the comparison may be the predicate of a slices.ContainsFunc / IndexFunc: a function literal of top, which sees
		// top's parameters as captured variables and its element as a struct value)
		for _, fn := range append([]*ssa.Function{top}, closuresOf(top)...) {
			for _, b := range fn.Blocks {
				for _, in := range b.Instrs {
					bo, ok := in.(*ssa.BinOp)
					if !ok || bo.Op != token.EQL && bo.Op != token.NEQ {
						continue
					}
					for _, pair := range [][2]ssa.Value{{bo.X, bo.Y}, {bo.Y, bo.X}} {
						f, isF := recordField(pair[0])
						if !isF || f != field {
							continue
						}
						for _, rt := range append(valueRoots(pair[1]), pair[1]) {
							if capturedParam(rt) != nil {
								out = append(out, bo)
							}
						}
					}
				}
			}
		}
		return out
	}
	// (a) AddEdge
	if fi := w.Func("pkg/core", "DB.AddEdge"); fi != nil {
		fn := w.SSAFunc(fi.Obj)
		top := fn
		// the forward half (with the test) may be a function of its own that reports "applied before" to AddEdge
		isTest := func(in ssa.Instruction) bool {
			if bo, ok := in.(*ssa.BinOp); ok {
				for _, c := range cmpField(fn, "CreatedAt") {
					if c == bo {
						return true
					}
				}
				return false
			}
			c, ok := in.(*ssa.Call)
			if !ok {
				return false
			}
			g := c.Call.StaticCallee()
			return g != nil && inModule(g) && len(g.Blocks) > 0 && len(cmpField(g, "CreatedAt")) > 0
		}
		isChange := func(in ssa.Instruction) bool {
			switch x := in.(type) {
			case *ssa.MapUpdate:
				return strings.Contains(x.Map.Type().String(), "GraphEdge") || strings.Contains(x.Map.Type().String(), "ReverseEdge")
			case *ssa.Store:
				if fa, ok := x.Addr.(*ssa.FieldAddr); ok {
					if _, f := structFieldName(fa.X.Type(), fa.Field); f == "DeletedAt" {
						return true
					}
				}
			}
			return false
		}
		if len(findInstrs(fn, isTest)) == 0 {
			for _, h := range w.extractedHelpers(top) {
				if h.Signature.Results().Len() == 1 && isBoolType(h.Signature.Results().At(0).Type()) && len(findInstrs(h, isChange)) > 0 {
					fn = h // (isTest reads fn)
					if len(findInstrs(h, isTest)) > 0 {
						break
					}
					fn = top
				}
			}
		}
		tests := findInstrs(fn, isTest)
		ok := len(tests) > 0 && len(findInstrs(fn, isChange)) > 0
		var wit []ssa.Instruction
		if ok {
			// (written out in AddEdge itself the test is a loop inside `if timestamp != 0`: a record without a timestamp
			// cannot be recognised, and an empty list holds nothing to find — neither is a way round the test)
			scenario := zeroIterEdges(fn, isTest)
			for _, b := range fn.Blocks {
				for _, in := range b.Instrs {
					bo, isBo := in.(*ssa.BinOp)
					if !isBo || (bo.Op != token.NEQ && bo.Op != token.EQL) {
						continue
					}
					p, isP := bo.X.(*ssa.Parameter)
					k, isK := constInt(bo.Y)
					if !isP || !isK || k != 0 || !isInt64(p.Type()) {
						continue
					}
					t, f := condEdges(bo)
					zero := f
					if bo.Op == token.EQL {
						zero = t
					}
					for _, e := range zero {
						scenario[e] = true
					}
				}
			}
			// a scan for such a version has been run: the test itself, or the head of the loop it sits in (a scan that
			// meets no entry of this peer never evaluates the timestamp comparison)
			scanned := func(in ssa.Instruction) bool {
				if isTest(in) {
					return true
				}
				for _, t := range tests {
					if h := innermostLoop(fn, t.Block()); h != nil && in == h.Instrs[0] {
						return true
					}
				}
				return false
			}
			if f, wt := (pathQuery{fn: fn, target: isChange, avoid: scanned, blocked: scenario}).find(entryPos(fn)); f {
				ok, wit = false, wt
			}
			// on the "already there" edge nothing is changed
			for _, t := range tests {
				v, isV := t.(ssa.Value)
				if !isV {
					continue
				}
				te, _ := condEdges(v)
				for _, e := range te {
					if f, wt := (pathQuery{fn: fn, target: isChange}).find(ipos{e.from.Succs[e.succ], -1}); f {
						ok, wit = false, wt
					}
				}
			}
		}
		if ok && fn != top {
			// the half with the test answers one constant on the "already there" edge, and AddEdge makes no other change
			// (directly or through the other half) on the edge where it got that answer
			var answer *bool
			for _, t := range tests {
				v, isV := t.(ssa.Value)
				if !isV {
					continue
				}
				te, _ := condEdges(v)
				for _, e := range te {
					for _, b := range fn.Blocks {
						rt, isRet := b.Instrs[len(b.Instrs)-1].(*ssa.Return)
						if !isRet {
							continue
						}
						if reach, _ := (pathQuery{fn: fn, target: func(in ssa.Instruction) bool { return in == ssa.Instruction(rt) }}).find(ipos{e.from.Succs[e.succ], -1}); !reach {
							continue
						}
						c, isC := retVal(rt, 0).(*ssa.Const)
						if !isC || c.Value == nil {
							ok = false
							continue
						}
						bv := constant.BoolVal(c.Value)
						if answer != nil && *answer != bv {
							ok = false
						}
						answer = &bv
					}
				}
			}
			changesIn := func(f *ssa.Function) bool { return len(findInstrs(f, isChange)) > 0 }
			otherChange := func(in ssa.Instruction) bool {
				if isChange(in) {
					return true
				}
				c, isCall := in.(*ssa.Call)
				return isCall && c.Call.StaticCallee() != nil && c.Call.StaticCallee() != fn && inModule(c.Call.StaticCallee()) && changesIn(c.Call.StaticCallee())
			}
			if answer == nil {
				ok = false
			} else {
				for _, cs := range callSitesOf(top, fn) {
					t, f := condEdges(cs)
					same := f
					if *answer {
						same = t
					}
					if len(t)+len(f) == 0 {
						ok = false
					}
					for _, e := range same {
						if reach, wt := (pathQuery{fn: top, target: otherChange}).find(ipos{e.from.Succs[e.succ], -1}); reach {
							ok, wit = false, wt
						}
					}
					// and no change before the answer is in
					if pre, wt := (pathQuery{fn: top, target: otherChange, avoid: func(in ssa.Instruction) bool { return in == ssa.Instruction(cs) }}).find(entryPos(top)); pre {
						ok, wit = false, wt
					}
				}
			}
		}
		r.Cond(ok, "CDC-15", "DB.AddEdge:no-change-when-a-version-was-created-at-this-timestamp", w.Pos(fi.Decl.Pos()), "every change of the edge lists lies behind the not-found edge of a test for a version created at the record's timestamp", "DB.AddEdge applies a link without asking whether a version created at this timestamp already exists: a link that ran while a snapshot (or compaction) was being taken is captured in it and replayed from the shadow buffer — replaying a history of weight changes on top of its own result adds phantom versions, and a query 'as of T' returns the same edge twice", w.witness(wit)...)
	} else {
		r.Und("CDC-15", "anchor:DB.AddEdge", "", "anchor lost")
	}
	// (b) RemoveEdge: one "already ended at this timestamp" test per view
	if fi := w.Func("pkg/core", "DB.RemoveEdge"); fi != nil {
		fn := w.SSAFunc(fi.Obj)
		cs := cmpField(fn, "DeletedAt")
		for _, h := range w.extractedHelpers(fn) { // the soft unlink of a view moved into a function of its own
			cs = append(cs, cmpField(h, "DeletedAt")...)
		}
		views := map[string]bool{}
		for _, c := range cs {
			for _, side := range []ssa.Value{c.X, c.Y} {
				if ld, ok := side.(*ssa.UnOp); ok && ld.Op == token.MUL {
					if fa, ok := ld.X.(*ssa.FieldAddr); ok {
						owner, _ := structFieldName(fa.X.Type(), fa.Field)
						views[owner] = true
					}
				}
			}
		}
		for _, v := range []string{"GraphEdge", "ReverseEdge"} {
			has := false
			for o := range views {
				if strings.HasSuffix(o, v) {
					has = true
				}
			}
			r.Cond(has, "CDC-15", "DB.RemoveEdge:"+v+":tests-for-a-version-ended-at-this-timestamp", w.Pos(fi.Decl.Pos()), "the soft unlink compares DeletedAt with the record's timestamp in this view", "the soft branch of DB.RemoveEdge does not ask whether a "+v+" version already ends at the record's timestamp: an unlink that is replayed on top of a state that already contains it marks the ACTIVE version — a later re-link — as deleted")
		}
	} else {
		r.Und("CDC-15", "anchor:DB.RemoveEdge", "", "anchor lost")
	}
}

// ---------------------------------------------------------------------------------------------------------------
// GRD-logarg: the decay calculators never hand a possibly negative count to a logarithm.
// ---------------------------------------------------------------------------------------------------------------
func ruleGRDlogarg(w *World, r *Report) {
	r.Doc("GRD-logarg", "in pkg/engine (the decay of the search path and the stability score of the belief assessment) every integer that is converted and passed to math.Log1p / math.Log / math.Sqrt has a lower bound of 0 on every path (a clamp or an early return): Log1p of a count below -1 is NaN, NaN passes every `<= 0` fallback test, and the decay factor — which must lie in [0,1] — and the score become NaN", 2)
	n := 0
	for _, fn := range w.pkgSSAFuncs("pkg/engine") {
		k := 0
		for _, b := range fn.Blocks {
			for _, in := range b.Instrs {
				c, ok := in.(*ssa.Call)
				if !ok || !(isCallTo(c, "math", "Log1p") || isCallTo(c, "math", "Log") || isCallTo(c, "math", "Sqrt")) {
					continue
				}
				cv, ok := c.Call.Args[0].(*ssa.Convert)
				if !ok || !isIntType(cv.X.Type()) {
					continue
				}
				n++
				k++
				var pred *ssa.BasicBlock
				if len(b.Preds) == 1 {
					pred = b.Preds[0]
				}
				lo := intBound(cv.X, pred, b, false, 0)
				r.Cond(lo >= 0, "GRD-logarg", fmt.Sprintf("%s:log-of-a-count#%d:count-not-negative", shortFn(fn), k), w.Pos(c.Pos()), "the integer has a lower bound of 0 where it is converted", shortFn(fn)+" passes an integer with no lower bound to a logarithm: for _access_count = -2 (plain metadata, settable by any caller) math.Log1p is NaN, the `stability <= 0` fallback does not catch NaN, the decay factor and the score are NaN, the memory sorts first and the result list cannot be JSON-encoded (200 with an empty body)")
			}
		}
	}
	if n == 0 {
		r.Und("GRD-logarg", "sites", "", "no logarithm of an integer count found in pkg/engine (analysis lost its anchors)")
	}
}

// ---------------------------------------------------------------------------------------------------------------
// WEB-11: the profiling handlers are behind the admin prefixes.
// ---------------------------------------------------------------------------------------------------------------
func ruleWEB11(w *World, r *Report) {
	r.Doc("WEB-11", "for every route whose handler comes from net/http/pprof (process arguments, heap, goroutines) the weakest role the auth middleware's decision procedure can settle for — evaluated on the decision paths extracted from its SSA, as for WEB-3 — is admin", 3)
	paths, _ := w.extractPolicy(r)
	if paths == nil {
		r.Und("WEB-11", "Server.authMiddleware:policy", "", "the decision procedure of the middleware could not be extracted")
		return
	}
	n := 0
	for _, fn := range w.pkgSSAFuncs("internal/server") {
		for _, b := range fn.Blocks {
			for _, in := range b.Instrs {
				c, ok := in.(*ssa.Call)
				if !ok {
					continue
				}
				o := calleeObj(&c.Call)
				if o == nil || o.Pkg() == nil || o.Pkg().Path() != "net/http" || (o.Name() != "HandleFunc" && o.Name() != "Handle") || len(c.Call.Args) < 3 {
					continue
				}
				h, ok := c.Call.Args[2].(*ssa.Function)
				if !ok || h.Pkg == nil || h.Pkg.Pkg.Path() != "net/http/pprof" {
					continue
				}
				pat, ok := constString(c.Call.Args[1])
				if !ok {
					continue
				}
				methods := []string{"GET", "POST", "PUT", "DELETE"}
				if i := strings.Index(pat, " "); i >= 0 {
					methods, pat = []string{pat[:i]}, pat[i+1:]
				}
				n++
				worst, why := weakestRole(paths, methods, pat)
				if why != "" {
					why = " (when the caller chooses the rest of the path so that: " + why + ")"
				}
				r.Cond(worst == "admin", "WEB-11", "route:"+pat+":admin-only", w.Pos(c.Pos()), "the middleware requires the admin role", "the profiling route "+pat+" is served to a "+worst+" token"+why+": it gets the process arguments (where --auth-token=<root> is passed), heap and goroutine dumps")
			}
		}
	}
	if n == 0 {
		r.Ok("WEB-11", "no-pprof-routes", "", "no handler of net/http/pprof is registered")
	}
}

// ---------------------------------------------------------------------------------------------------------------
// GRD-path-exhausted: FindPath's round loop ends with its frontiers, not only with max_depth.
// ---------------------------------------------------------------------------------------------------------------
func ruleGRDpathExhausted(w *World, r *Report) {
	r.Doc("GRD-path-exhausted", "the round loop of Engine.FindPath has an exit that is taken when the frontier queues are empty (a test of len(queue) == 0 inside the loop whose empty edge leaves the loop): the number of rounds is bounded by the graph, not only by the caller's max_depth", 1)
	fi := w.Func("pkg/engine", "Engine.FindPath")
	if fi == nil {
		r.Und("GRD-path-exhausted", "anchor:Engine.FindPath", "", "anchor lost")
		return
	}
	top := w.SSAFunc(fi.Obj)
	// the round loop: the outermost loop whose header compares a counter with the maxDepth parameter
	var header *ssa.BasicBlock
	fn := top
	for _, cand := range append([]*ssa.Function{top}, w.extractedHelpers(top)...) { // (the search loop may be a phase function of its own)
		if header != nil {
			break
		}
		fn = cand
		for _, b := range fn.Blocks {
			bo, _, ok := condOf(b)
			if !ok {
				continue
			}
			isHeader := false
			for _, p := range b.Preds {
				if b.Dominates(p) {
					isHeader = true
				}
			}
			if !isHeader {
				continue
			}
			for _, side := range []ssa.Value{bo.X, bo.Y} {
				for _, rt := range append(valueRoots(side), side) {
					if p, ok := rt.(*ssa.Parameter); ok && isIntType(p.Type()) {
						header = b
					}
				}
			}
		}
	}
	if header == nil {
		r.Und("GRD-path-exhausted", "Engine.FindPath:round-loop", w.Pos(fi.Decl.Pos()), "the loop bounded by the depth parameter was not found (shape not recognised)")
		return
	}
	body := naturalLoop(header)
	exits := 0
	for b := range body {
		bo, neg, ok := condOf(b)
		if !ok || b == header {
			continue
		}
		// len(q) == 0 / != 0 / > 0 ...
		var lenCall *ssa.Call
		var c int64 = -1
		for _, pair := range [][2]ssa.Value{{bo.X, bo.Y}, {bo.Y, bo.X}} {
			if lc, ok := pair[0].(*ssa.Call); ok {
				if _, isLen := isBuiltinCall(lc, "len"); isLen {
					if k, ok := constInt(pair[1]); ok {
						lenCall, c = lc, k
					}
				}
			}
		}
		if lenCall == nil || c != 0 || !isSliceType(lenCall.Call.Args[0].Type()) {
			continue
		}
		for si := range b.Succs {
			holds := (si == 0) != neg
			empty := bo.Op == token.EQL && holds || bo.Op == token.NEQ && !holds || bo.Op == token.GTR && !holds && lenCall == bo.X || bo.Op == token.LEQ && holds && lenCall == bo.X
			if !empty {
				continue
			}
			// does the empty edge leave the loop within a few unconditional or same-kind steps?
			cur := b.Succs[si]
			for hop := 0; hop < 4 && cur != nil; hop++ {
				if !body[cur] {
					exits++
					break
				}
				if bo2, neg2, ok2 := condOf(cur); ok2 {
					// a second `len(other) == 0` test: follow its empty edge
					nxt := (*ssa.BasicBlock)(nil)
					for sj := range cur.Succs {
						h2 := (sj == 0) != neg2
						if bo2.Op == token.EQL && h2 || bo2.Op == token.NEQ && !h2 {
							nxt = cur.Succs[sj]
						}
					}
					cur = nxt
				} else if len(cur.Succs) == 1 {
					cur = cur.Succs[0]
				} else {
					break
				}
			}
		}
	}
	r.Cond(exits > 0, "GRD-path-exhausted", "Engine.FindPath:round-loop:ends-with-empty-frontiers", w.Pos(header.Instrs[0].Pos()), "an empty-frontier test inside the loop leaves it", "the round loop of FindPath runs up to max_depth rounds whether or not any node is left to expand, and max_depth comes from the request unchecked: POST /graph/actions/find-path with max_depth around 9e18 between two unconnected nodes keeps a core spinning through empty rounds — the call never returns")
}

// capturedParam: v is a parameter — directly, as the load of the cell a captured parameter lives in (in the function
// that declares it), or as the load of the free variable bound to that cell (in a function literal). Returns it.
func capturedParam(v ssa.Value) *ssa.Parameter {
	if p, ok := v.(*ssa.Parameter); ok {
		return p
	}
	ld, ok := v.(*ssa.UnOp)
	if !ok || ld.Op != token.MUL {
		return nil
	}
	cell := ld.X
	if fv, ok := cell.(*ssa.FreeVar); ok {
		cell = freeVarBinding(fv)
	}
	al, ok := cell.(*ssa.Alloc)
	if !ok {
		return nil
	}
	st := cellStores(al)
	if len(st) != 1 {
		return nil
	}
	p, _ := st[0].Val.(*ssa.Parameter)
	return p
}
