package main

// rules_c07.go — C07: the structural conditions behind "small indexes are searched exactly".
//
// The property's first clause names its own mechanism: while an index holds at most 2·M vectors its base layer
// is fully connected, so search is exact. That needs, on EVERY insertion / repair path,
//   SIB-cap   the neighbour cap is mMax0 = 2·M at level 0 and M above, mMax0 is set once as 2·M, and every
//             neighbour selection / pruning is given that per-level cap
//   GRD-keep  neighbour selection keeps every candidate when there are no more than the cap
//   GRD-ef    the layer search works with a candidate list of at least k entries
// Nothing here decides recall (the second clause): that is a numeric outcome of a randomised construction.

import (
	"fmt"
	"go/constant"
	"go/token"
	"go/types"
	"strings"

	"golang.org/x/tools/go/ssa"
)

func hnswFieldLoad(v ssa.Value, field string) bool {
	u, ok := v.(*ssa.UnOp)
	if !ok || u.Op != token.MUL {
		return false
	}
	fa, ok := u.X.(*ssa.FieldAddr)
	if !ok {
		return false
	}
	owner, f := structFieldName(fa.X.Type(), fa.Field)
	return f == field && owner == "hnsw.Index"
}

// levelCap: v is the per-level neighbour cap — a phi that is h.mMax0 exactly on the true edge of `x == 0`
// and h.m otherwise. Returns (recognised, reason-if-not).
func levelCap(v ssa.Value) (bool, string) {
	phi, ok := v.(*ssa.Phi)
	if !ok {
		return false, "not a choice between the two caps"
	}
	sawM, sawM0 := false, false
	for i, e := range phi.Edges {
		pred := phi.Block().Preds[i]
		switch {
		case hnswFieldLoad(e, "m"):
			sawM = true
			// the M edge must be the level != 0 side: either the If block itself (false edge) or a block behind it
			if iff, ok := lastIf(pred); ok && isLevelZeroTest(iff.Cond) {
				if pred.Succs[1] != phi.Block() {
					return false, "the M cap is chosen on the level == 0 edge"
				}
			}
		case hnswFieldLoad(e, "mMax0"):
			sawM0 = true
			// defined behind the true edge of a level == 0 test
			def := e.(*ssa.UnOp).Block()
			okEdge := false
			for _, p := range def.Preds {
				if iff, ok := lastIf(p); ok && isLevelZeroTest(iff.Cond) && p.Succs[0] == def && len(def.Preds) == 1 {
					okEdge = true
				}
			}
			if !okEdge {
				return false, "the 2·M cap is not chosen by a `level == 0` test"
			}
		default:
			return false, "merges a value that is neither M nor 2·M"
		}
	}
	if !sawM || !sawM0 {
		return false, "does not choose between M and 2·M"
	}
	return true, ""
}

func lastIf(b *ssa.BasicBlock) (*ssa.If, bool) {
	if len(b.Instrs) == 0 {
		return nil, false
	}
	iff, ok := b.Instrs[len(b.Instrs)-1].(*ssa.If)
	return iff, ok
}

func isLevelZeroTest(c ssa.Value) bool {
	bo, ok := c.(*ssa.BinOp)
	if !ok || bo.Op != token.EQL {
		return false
	}
	k, ok := constInt(bo.Y)
	return ok && k == 0 && basicKind(bo.X.Type()) == types.Int
}

// capValue resolves locals spilled to an Alloc (variables captured by closures).
func capValue(v ssa.Value) ssa.Value {
	if u, ok := v.(*ssa.UnOp); ok && u.Op == token.MUL {
		if al, ok := u.X.(*ssa.Alloc); ok {
			var stored []ssa.Value
			for _, ref := range *al.Referrers() {
				if st, ok := ref.(*ssa.Store); ok && st.Addr == al {
					stored = append(stored, st.Val)
				}
			}
			if len(stored) == 1 {
				return stored[0]
			}
		}
	}
	return v
}

func ruleSIBcap(w *World, r *Report) {
	r.Doc("SIB-cap", "every place that links or prunes neighbours uses the same per-level cap — h.mMax0 on the `level == 0` edge, h.m otherwise — mMax0 is stored once, in the constructor, as 2·m, and every call of selectNeighbors is given such a cap", 10)
	fns := w.pkgSSAFuncs(hnswPkg)
	// (1) stores to m / mMax0
	stores, okInit := 0, false
	var spos token.Pos
	for _, fn := range fns {
		for _, b := range fn.Blocks {
			for _, in := range b.Instrs {
				st, ok := in.(*ssa.Store)
				if !ok {
					continue
				}
				fa, ok := st.Addr.(*ssa.FieldAddr)
				if !ok {
					continue
				}
				owner, f := structFieldName(fa.X.Type(), fa.Field)
				if owner != "hnsw.Index" || f != "mMax0" {
					continue
				}
				stores++
				spos = st.Pos()
				if bo, ok := st.Val.(*ssa.BinOp); ok && bo.Op == token.MUL {
					c1, ok1 := constInt(bo.Y)
					c2, ok2 := constInt(bo.X)
					if ok1 && c1 == 2 || ok2 && c2 == 2 {
						okInit = true
					}
				}
				if bo, ok := st.Val.(*ssa.BinOp); ok && bo.Op == token.SHL {
					if c, ok := constInt(bo.Y); ok && c == 1 {
						okInit = true
					}
				}
			}
		}
	}
	r.Cond(stores == 1 && okInit, "SIB-cap", "mMax0:initialised-as-2m", w.Pos(spos), "mMax0 is stored once, as 2·m", fmt.Sprintf("mMax0 is stored %d time(s) and/or not as 2·m: with a base-layer cap below 2·M an index of up to 2·M vectors is no longer fully connected at level 0 and small-index search stops being exact", stores))
	// (2) every use of mMax0 is a recognised per-level cap; (3) every selectNeighbors call gets one
	nCaps, nSel := 0, 0
	for _, fn := range fns {
		perFn, selFn := 0, 0
		seenPhi := map[*ssa.Phi]bool{}
		for _, b := range fn.Blocks {
			for _, in := range b.Instrs {
				if u, ok := in.(*ssa.UnOp); ok && hnswFieldLoad(u, "mMax0") {
					for _, ref := range *u.Referrers() {
						switch x := ref.(type) {
						case *ssa.DebugRef:
						case *ssa.Phi:
							if seenPhi[x] {
								continue
							}
							seenPhi[x] = true
							choosesCap := false
							for _, e := range x.Edges {
								if hnswFieldLoad(e, "m") {
									choosesCap = true
								}
							}
							if !choosesCap {
								continue // mMax0 used as something else (AddBatchFast derives an ef from it)
							}
							perFn++
							nCaps++
							ok, why := levelCap(x)
							r.Cond(ok, "SIB-cap", fmt.Sprintf("cap:%s#%d", fnName(fn), perFn), w.Pos(u.Pos()), "2·M on the level == 0 edge, M otherwise", fnName(fn)+": "+why+" — this path links or prunes the base layer with the wrong cap (or the upper layers with the base cap); an index built or repaired through it loses the full base-layer connectivity that makes small-index search exact")
						case *ssa.Store:
							if al, ok := x.Addr.(*ssa.Alloc); ok && al.Comment != "" {
								// spilled local: the choice is made by the stores; check the store is behind level == 0
								perFn++
								nCaps++
								okEdge := false
								def := x.Block()
								for _, p := range def.Preds {
									if iff, ok := lastIf(p); ok && isLevelZeroTest(iff.Cond) && p.Succs[0] == def && len(def.Preds) == 1 {
										okEdge = true
									}
								}
								r.Cond(okEdge, "SIB-cap", fmt.Sprintf("cap:%s#%d", fnName(fn), perFn), w.Pos(u.Pos()), "2·M is assigned on the level == 0 edge", fnName(fn)+": the 2·M cap is assigned to the cap variable on a path not selected by `level == 0`")
								continue
							}
							perFn++
							nCaps++
							r.Bad("SIB-cap", fmt.Sprintf("cap:%s#%d", fnName(fn), perFn), w.Pos(u.Pos()), fnName(fn)+" stores mMax0 somewhere other than a per-level cap variable")
						default:
							// direct uses (e.g. as an ef for fast import) are not caps
						}
					}
				}
				c, ok := in.(*ssa.Call)
				if !ok {
					continue
				}
				if g := c.Call.StaticCallee(); g == nil || fnName(g) != "pkg/core/hnsw.(*Index).selectNeighbors" {
					continue
				}
				nSel++
				selFn++
				capArg := capValue(c.Call.Args[len(c.Call.Args)-1])
				ok2, why := levelCap(capArg)
				if !ok2 {
					// a spilled local assigned M then conditionally 2·M
					if u, isLoad := c.Call.Args[len(c.Call.Args)-1].(*ssa.UnOp); isLoad {
						if al, isAl := u.X.(*ssa.Alloc); isAl {
							m, m0 := false, false
							for _, ref := range *al.Referrers() {
								if st, ok := ref.(*ssa.Store); ok && st.Addr == al {
									if hnswFieldLoad(st.Val, "m") {
										m = true
									}
									if hnswFieldLoad(st.Val, "mMax0") {
										m0 = true
									}
								}
							}
							if m && m0 {
								ok2 = true // the mMax0 store's edge is checked above
							}
						}
					}
				}
				r.Cond(ok2, "SIB-cap", fmt.Sprintf("select:%s#%d", fnName(fn), selFn), w.Pos(c.Pos()), "selectNeighbors is given the per-level cap", fnName(fn)+" calls selectNeighbors with a cap that is "+why+": neighbours of base-layer nodes are pruned to the wrong size on this path")
			}
		}
	}
	r.Count("per_level_caps", nCaps)
	r.Count("selectNeighbors_calls", nSel)
	if nCaps < 6 || nSel < 6 {
		r.Und("SIB-cap", "anchor:cap-sites", "", fmt.Sprintf("expected ≥6 per-level caps and ≥6 selectNeighbors calls, found %d/%d", nCaps, nSel))
	}
}

func ruleGRDkeep(w *World, r *Report) {
	r.Doc("GRD-keep", "selectNeighbors returns the candidate list unchanged whenever it has no more entries than the cap (nothing is pruned below the cap), and the layer search raises its working ef to at least k before it starts", 1)
	fi := w.Func(hnswPkg, "Index.selectNeighbors")
	if fi == nil {
		r.Und("GRD-keep", "anchor:Index.selectNeighbors", "", "anchor lost")
	} else {
		fn := w.SSAFunc(fi.Obj)
		cands, capP := fn.Params[1], fn.Params[2]
		okKeep := false
		for _, b := range fn.Blocks {
			for _, in := range b.Instrs {
				bo, ok := in.(*ssa.BinOp)
				if !ok || bo.Op != token.LEQ || !isLenOfValue(bo.X, cands) || bo.Y != ssa.Value(capP) {
					continue
				}
				t, _ := condEdges(bo)
				for _, e := range t {
					// the true edge returns the parameter itself and nothing else
					all := true
					found, _ := (pathQuery{fn: fn, target: func(x ssa.Instruction) bool {
						rt, ok := x.(*ssa.Return)
						if ok && retVal(rt, 0) != ssa.Value(cands) {
							all = false
						}
						return ok
					}}).find(ipos{e.from.Succs[e.succ], -1})
					if found && all {
						okKeep = true
					}
				}
			}
		}
		// every heuristic step (distance comparison) must lie behind the false edge of that test
		r.Cond(okKeep, "GRD-keep", "selectNeighbors:keeps-all-within-cap", w.Pos(fi.Decl.Pos()), "len(candidates) <= cap returns the candidates unchanged", "selectNeighbors applies its pruning heuristic (or returns something else) even when the candidates fit under the cap: a node of a small index loses neighbours it could keep, the base layer is no longer complete and a nearest neighbour can become unreachable from the entry point")
	}
	fi = w.Func(hnswPkg, "Index.searchLayerUnlocked")
	if fi == nil {
		r.Und("GRD-keep", "anchor:Index.searchLayerUnlocked", "", "anchor lost")
		return
	}
	fn := w.SSAFunc(fi.Obj)
	var kP, efP *ssa.Parameter
	for _, p := range fn.Params {
		switch p.Name() {
		case "k":
			kP = p
		case "efSearch":
			efP = p
		}
	}
	if kP == nil || efP == nil {
		// by position, whatever they are called: the int parameters of the layer search are (k, level, efSearch)
		var ints []*ssa.Parameter
		for _, p := range fn.Params[1:] {
			if basicKind(p.Type()) == types.Int {
				ints = append(ints, p)
			}
		}
		if len(ints) == 3 {
			kP, efP = ints[0], ints[2]
		}
	}
	okEf := false
	if kP != nil && efP != nil {
		for _, b := range fn.Blocks {
			for _, in := range b.Instrs {
				phi, ok := in.(*ssa.Phi)
				if !ok || len(phi.Edges) != 2 {
					continue
				}
				hasK, hasEf := false, false
				for _, e := range phi.Edges {
					if e == ssa.Value(kP) {
						hasK = true
					}
					if e == ssa.Value(efP) {
						hasEf = true
					}
				}
				if !hasK || !hasEf {
					continue
				}
				// the k edge is taken exactly when ef < k
				for i, e := range phi.Edges {
					if e != ssa.Value(kP) {
						continue
					}
					pred := phi.Block().Preds[i]
					for _, pp := range append([]*ssa.BasicBlock{pred}, pred.Preds...) {
						if iff, ok := lastIf(pp); ok {
							if bo, ok := iff.Cond.(*ssa.BinOp); ok && (bo.Op == token.LSS && bo.X == ssa.Value(efP) && bo.Y == ssa.Value(kP) || bo.Op == token.GTR && bo.X == ssa.Value(kP) && bo.Y == ssa.Value(efP)) {
								okEf = true
							}
						}
					}
				}
			}
		}
	}
	if !okEf && kP != nil && efP != nil {
		// the same written with the builtin: ef := max(efSearch, k)
		for _, b := range fn.Blocks {
			for _, in := range b.Instrs {
				c, ok := in.(*ssa.Call)
				if !ok {
					continue
				}
				if bi, isB := c.Call.Value.(*ssa.Builtin); !isB || bi.Name() != "max" {
					continue
				}
				hasK, hasEf := false, false
				for _, a := range c.Call.Args {
					if capturedParam(a) == kP {
						hasK = true
					}
					if capturedParam(a) == efP {
						hasEf = true
					}
				}
				if hasK && hasEf {
					okEf = true
				}
			}
		}
	}
	r.Cond(okEf, "GRD-keep", "searchLayerUnlocked:ef-at-least-k", w.Pos(fi.Decl.Pos()), "ef = max(efSearch, k)", "the layer search no longer raises its working ef to k: with efSearch < k fewer than k candidates are kept and the k nearest cannot all be returned")
}

// ruleSIBsorted: selectNeighbors walks its candidates from nearest to farthest; every caller must hand it a
// list that is sorted by distance — a layer-search result, or a slice that was sorted after its last append.
func ruleSIBsorted(w *World, r *Report) {
	r.Doc("SIB-sorted", "every call of selectNeighbors is given candidates ordered by distance: the result of searchLayerUnlocked, or a slice value on which a sort (sort.Slice / slices.SortFunc / sort.Sort) was executed on every path to the call — a later append makes a new slice value and needs a new sort", 5)
	n := 0
	isSortOf := func(v ssa.Value) func(ssa.Instruction) bool {
		return func(in ssa.Instruction) bool {
			c, ok := in.(*ssa.Call)
			if !ok || len(c.Call.Args) == 0 {
				return false
			}
			o := calleeObj(&c.Call)
			if o == nil || o.Pkg() == nil {
				return false
			}
			p := o.Pkg().Path()
			if !(p == "sort" && (o.Name() == "Slice" || o.Name() == "SliceStable" || o.Name() == "Sort" || o.Name() == "Stable") || p == "slices" && (o.Name() == "SortFunc" || o.Name() == "SortStableFunc")) {
				return false
			}
			a := c.Call.Args[0]
			if mi, ok := a.(*ssa.MakeInterface); ok {
				a = mi.X
			}
			if a == v {
				return true
			}
			// a variable captured by the comparison closure lives in an Alloc: every use is a separate load
			la, ok1 := a.(*ssa.UnOp)
			lv, ok2 := v.(*ssa.UnOp)
			if ok1 && ok2 && la.Op == token.MUL && lv.Op == token.MUL && la.X == lv.X {
				_, isAl := la.X.(*ssa.Alloc)
				return isAl
			}
			return false
		}
	}
	for _, fn := range w.pkgSSAFuncs(hnswPkg) {
		per := 0
		for _, b := range fn.Blocks {
			for _, in := range b.Instrs {
				c, ok := in.(*ssa.Call)
				if !ok {
					continue
				}
				if g := c.Call.StaticCallee(); g == nil || fnName(g) != "pkg/core/hnsw.(*Index).selectNeighbors" {
					continue
				}
				n++
				per++
				arg := c.Call.Args[1]
				key := fmt.Sprintf("sorted:%s#%d", fnName(fn), per)
				// (a) a layer-search result
				if ex, ok := arg.(*ssa.Extract); ok {
					if sc, ok := ex.Tuple.(*ssa.Call); ok {
						if g := sc.Call.StaticCallee(); g != nil && fnName(g) == "pkg/core/hnsw.(*Index).searchLayerUnlocked" {
							r.Ok("SIB-sorted", key, w.Pos(c.Pos()), "candidates are a layer-search result")
							continue
						}
					}
				}
				// (b) sorted on every path to the call
				cc := ssa.Instruction(c)
				found, wit := (pathQuery{fn: fn, target: func(x ssa.Instruction) bool { return x == cc }, avoid: isSortOf(arg)}).find(entryPos(fn))
				if !found {
					// a spilled variable: no assignment (append) between the sort and the call
					if ld, ok := arg.(*ssa.UnOp); ok && ld.Op == token.MUL {
						if al, ok := ld.X.(*ssa.Alloc); ok {
							for _, ref := range *al.Referrers() {
								if st, ok := ref.(*ssa.Store); ok && st.Addr == al {
									if f2, w2 := (pathQuery{fn: fn, target: func(x ssa.Instruction) bool { return x == cc }, avoid: isSortOf(arg)}).find(posOf(st)); f2 {
										found, wit = true, append([]ssa.Instruction{st}, w2...)
									}
								}
							}
						}
					}
				}
				r.Cond(!found, "SIB-sorted", key, w.Pos(c.Pos()), "the slice passed in was sorted on every path to the call", fnName(fn)+" hands selectNeighbors a candidate list that was not sorted by distance after it was built: the heuristic keeps the FIRST acceptable candidates, so it keeps arbitrary neighbours instead of the nearest diverse ones and the recall of indexes built or repaired through this path drops", w.witness(wit)...)
			}
		}
	}
	r.Count("selectNeighbors_calls_checked_for_order", n)
	if n < 7 {
		r.Und("SIB-sorted", "anchor:selectNeighbors-calls", "", fmt.Sprintf("expected ≥7 calls of selectNeighbors, found %d", n))
	}
}

// ruleGRDtraverse: soft-deleted nodes stay part of the road network until vacuum removes them.
func ruleGRDtraverse(w *World, r *Report) {
	r.Doc("GRD-traverse", "in the layer search the push onto the candidate (exploration) heap does not depend on the Deleted flag of the neighbour: tombstones are filtered from the results only, the search still walks through them (a region reachable only through not-yet-vacuumed deletes stays reachable)", 1)
	fi := w.Func(hnswPkg, "Index.searchLayerUnlocked")
	if fi == nil {
		r.Und("GRD-traverse", "anchor:Index.searchLayerUnlocked", "", "anchor lost")
		return
	}
	fn := w.SSAFunc(fi.Obj)
	isCandPush := func(in ssa.Instruction) bool { return isMethodCall(in, "pkg/core/hnsw", "minHeap.Push") }
	pushes := findInstrs(fn, isCandPush)
	if len(pushes) == 0 {
		r.Und("GRD-traverse", "anchor:candidates.Push", w.Pos(fi.Decl.Pos()), "no push onto a minHeap candidate set found in the layer search")
		return
	}
	var tests []*ssa.Call
	for _, in := range findInstrs(fn, func(in ssa.Instruction) bool {
		c, ok := in.(*ssa.Call)
		if !ok {
			return false
		}
		o := calleeObj(&c.Call)
		return o != nil && o.Pkg() != nil && o.Pkg().Path() == "sync/atomic" && shortName(o) == "Bool.Load" && recvIsField(c, "Deleted")
	}) {
		tests = append(tests, in.(*ssa.Call))
	}
	for i, p := range pushes {
		bad := false
		var at ssa.Instruction
		for _, t := range tests {
			tr, fl := condEdges(t)
			for _, e := range append(tr, fl...) {
				s := e.from.Succs[e.succ]
				if len(s.Preds) == 1 && (s == p.Block() || s.Dominates(p.Block())) {
					bad, at = true, t
				}
			}
		}
		pos := w.Pos(p.Pos())
		if at != nil {
			pos = w.Pos(at.Pos())
		}
		r.Cond(!bad, "GRD-traverse", fmt.Sprintf("searchLayerUnlocked:candidate-push#%d", i+1), pos, "the exploration push is reached on both outcomes of every Deleted test", "the layer search pushes a neighbour onto the exploration heap only on one outcome of a Deleted test: soft-deleted nodes are no longer walked through, so live vectors that are connected to the entry point only across not-yet-vacuumed deletes are never found (recall collapses after bulk deletes until the next vacuum)")
	}
}

// ruleGRDelect: after a vacuum removed the entry point, the graph is declared empty only if no live node is left.
func ruleGRDelect(w *World, r *Report) {
	r.Doc("GRD-elect", "when Vacuum re-elects the entry point, the 'graph is empty' outcome (maxLevel = -1) is unreachable on every path on which a live node was seen: a surviving node always becomes the new entry point", 1)
	fi := w.Func(hnswPkg, "GraphOptimizer.Vacuum")
	if fi == nil {
		r.Und("GRD-elect", "anchor:GraphOptimizer.Vacuum", "", "anchor lost")
		return
	}
	fn := w.SSAFunc(fi.Obj)
	isEmptyStore := func(in ssa.Instruction) bool {
		c, ok := in.(*ssa.Call)
		if !ok {
			return false
		}
		o := calleeObj(&c.Call)
		if o == nil || o.Pkg() == nil || o.Pkg().Path() != "sync/atomic" || shortName(o) != "Int32.Store" || !recvIsField(c, "maxLevel") {
			return false
		}
		k, ok := constInt(c.Call.Args[len(c.Call.Args)-1])
		return ok && k == -1
	}
	empties := findInstrs(fn, isEmptyStore)
	if len(empties) == 0 {
		r.Und("GRD-elect", "anchor:Vacuum:maxLevel.Store(-1)", w.Pos(fi.Decl.Pos()), "Vacuum no longer has an 'index is empty' outcome to guard")
		return
	}
	// the election loop's tests: among all not-deleted tests, those whose deepest common dominator with the
	// empty outcome is deepest (earlier phases of Vacuum test other nodes for other purposes)
	depth := func(b *ssa.BasicBlock) int {
		d := 0
		for x := b; x != nil; x = x.Idom() {
			d++
		}
		return d
	}
	common := func(a, b *ssa.BasicBlock) *ssa.BasicBlock {
		for x := a; x != nil; x = x.Idom() {
			if x.Dominates(b) {
				return x
			}
		}
		return nil
	}
	best := -1
	// the election written as a yes/no function literal (or helper) of Vacuum — `if !electEntry() { …empty… }`: the empty
	// outcome hangs on one answer of it, and inside it that answer must be unreachable once a live node was seen
	{
		isDel := func(in ssa.Instruction) bool {
			c, ok := in.(*ssa.Call)
			if !ok {
				return false
			}
			o := calleeObj(&c.Call)
			return o != nil && o.Pkg() != nil && o.Pkg().Path() == "sync/atomic" && shortName(o) == "Bool.Load" && recvIsField(c, "Deleted")
		}
		for _, in := range findInstrs(fn, func(in ssa.Instruction) bool { _, ok := in.(*ssa.Call); return ok }) {
			c := in.(*ssa.Call)
			var g *ssa.Function
			switch v := c.Call.Value.(type) {
			case *ssa.MakeClosure:
				g, _ = v.Fn.(*ssa.Function)
			case *ssa.Function:
				g = v
			default:
				for _, rt := range valueRoots(c.Call.Value) {
					if mc, ok := rt.(*ssa.MakeClosure); ok {
						g, _ = mc.Fn.(*ssa.Function)
					}
				}
			}
			if g == nil || len(g.Blocks) == 0 || g.Signature.Results().Len() != 1 || !isBoolType(g.Signature.Results().At(0).Type()) || len(findInstrs(g, isDel)) == 0 {
				continue
			}
			tEdges, fEdges := condEdges(c)
			reach := func(es []edgeKey) bool {
				for _, e := range es {
					if f, _ := (pathQuery{fn: fn, target: isEmptyStore}).find(ipos{e.from.Succs[e.succ], -1}); f {
						return true
					}
				}
				return false
			}
			onTrue, onFalse := reach(tEdges), reach(fEdges)
			if onTrue == onFalse {
				continue // the empty outcome does not hang on this answer
			}
			emptyAnswer := onTrue // the answer of g that leads to "the graph is empty"
			k := 0
			for _, t := range findInstrs(g, isDel) {
				_, live := condEdges(t.(*ssa.Call))
				if len(live) == 0 {
					continue
				}
				k++
				bad := false
				var wit []ssa.Instruction
				saysEmpty := func(x ssa.Instruction) bool {
					rt, ok := x.(*ssa.Return)
					return ok && !isConstBool(retVal(rt, 0), !emptyAnswer)
				}
				for _, e := range live {
					// what the literal can answer from here on, with its boolean variables followed along each path (a "found"
					// flag that is set on this edge and returned after the scan is true on every such path)
					mayTrue, mayFalse := boolAnswersFrom(g, e.from.Succs[e.succ], e.from)
					if (emptyAnswer && mayTrue) || (!emptyAnswer && mayFalse) {
						_, wt := (pathQuery{fn: g, target: saysEmpty}).find(ipos{e.from.Succs[e.succ], -1})
						bad, wit = true, wt
					}
				}
				r.Cond(!bad, "GRD-elect", fmt.Sprintf("Vacuum:live-node-seen#%d", k), w.Pos(t.Pos()), "once a live node was seen the election cannot answer 'none'", "Vacuum can declare the graph empty (maxLevel = -1) although its election saw a live node: searches then return nothing while vectors are live, and later inserts start a second, disconnected graph", w.witness(wit)...)
			}
			if k > 0 {
				return
			}
		}
	}
	isDelTest := func(in ssa.Instruction) bool {
		c, ok := in.(*ssa.Call)
		if !ok {
			return false
		}
		o := calleeObj(&c.Call)
		return o != nil && o.Pkg() != nil && o.Pkg().Path() == "sync/atomic" && shortName(o) == "Bool.Load" && recvIsField(c, "Deleted")
	}
	for _, t := range findInstrs(fn, isDelTest) {
		if c := common(t.Block(), empties[0].Block()); c != nil && depth(c) > best {
			best = depth(c)
		}
	}
	n := 0
	for _, in := range findInstrs(fn, func(in ssa.Instruction) bool {
		if !isDelTest(in) {
			return false
		}
		c := common(in.Block(), empties[0].Block())
		return c != nil && depth(c) == best
	}) {
		t := in.(*ssa.Call)
		_, live := condEdges(t) // Deleted == false
		if len(live) == 0 {
			continue
		}
		n++
		bad := false
		var wit []ssa.Instruction
		for _, e := range live {
			if found, wt := (pathQuery{fn: fn, target: isEmptyStore}).find(ipos{e.from.Succs[e.succ], -1}); found {
				bad, wit = true, wt
			}
		}
		r.Cond(!bad, "GRD-elect", fmt.Sprintf("Vacuum:live-node-seen#%d", n), w.Pos(t.Pos()), "once a live node was seen the empty-graph outcome is unreachable", "Vacuum can declare the graph empty (maxLevel = -1) although its election loop saw a live node (the 'found' flag is not set on every path from the not-deleted edge): searches then return nothing while vectors are live, and later inserts start a second, disconnected graph", w.witness(wit)...)
	}
	if n == 0 {
		r.Und("GRD-elect", "anchor:Vacuum:election-loop", w.Pos(fi.Decl.Pos()), "no not-deleted test precedes the empty-graph outcome: election loop not recognised")
	}
}

// boolAnswersFrom: which boolean answers a one-result function g can return on the paths that start by entering block
// start from pred. Boolean phis are evaluated along each path (a constant, or the current value of another phi), a branch
// on a value that is known follows only the consistent edge; anything else is unknown (both answers possible).
func boolAnswersFrom(g *ssa.Function, start, pred *ssa.BasicBlock) (mayTrue, mayFalse bool) {
	var phis []*ssa.Phi
	idx := map[*ssa.Phi]int{}
	for _, b := range g.Blocks {
		for _, in := range b.Instrs {
			if p, ok := in.(*ssa.Phi); ok && isBoolType(p.Type()) {
				idx[p] = len(phis)
				phis = append(phis, p)
			}
		}
	}
	const unk, tt, ff = '?', 'T', 'F'
	valOf := func(v ssa.Value, env []byte) byte {
		switch x := v.(type) {
		case *ssa.Const:
			if x.Value != nil && x.Value.Kind() == constant.Bool {
				if constant.BoolVal(x.Value) {
					return tt
				}
				return ff
			}
		case *ssa.Phi:
			if i, ok := idx[x]; ok {
				return env[i]
			}
		case *ssa.UnOp:
			if x.Op == token.NOT {
				switch valOfNot := x.X; v2 := valOfNot.(type) {
				case *ssa.Phi:
					if i, ok := idx[v2]; ok {
						switch env[i] {
						case tt:
							return ff
						case ff:
							return tt
						}
					}
				}
			}
		}
		return unk
	}
	type st struct {
		b, from *ssa.BasicBlock
		env     string
	}
	seen := map[st]bool{}
	var walk func(b, from *ssa.BasicBlock, env []byte)
	walk = func(b, from *ssa.BasicBlock, env []byte) {
		// enter b from `from`: its phis take the operand of that edge (simultaneously)
		next := append([]byte{}, env...)
		for _, in := range b.Instrs {
			p, ok := in.(*ssa.Phi)
			if !ok {
				break
			}
			i, isB := idx[p]
			if !isB {
				continue
			}
			for pi, pb := range b.Preds {
				if pb == from && pi < len(p.Edges) {
					next[i] = valOf(p.Edges[pi], env)
				}
			}
		}
		k := st{b, from, string(next)}
		if seen[k] || len(seen) > 20000 {
			return
		}
		seen[k] = true
		switch term := b.Instrs[len(b.Instrs)-1].(type) {
		case *ssa.Return:
			if len(term.Results) != 1 {
				mayTrue, mayFalse = true, true
				return
			}
			switch valOf(retVal(term, 0), next) {
			case tt:
				mayTrue = true
			case ff:
				mayFalse = true
			default:
				mayTrue, mayFalse = true, true
			}
		case *ssa.If:
			switch valOf(term.Cond, next) {
			case tt:
				walk(b.Succs[0], b, next)
			case ff:
				walk(b.Succs[1], b, next)
			default:
				walk(b.Succs[0], b, next)
				walk(b.Succs[1], b, next)
			}
		default:
			for _, s := range b.Succs {
				walk(s, b, next)
			}
		}
	}
	env := make([]byte, len(phis))
	for i := range env {
		env[i] = unk
	}
	walk(start, pred, env)
	return
}

// ruleGRDsmallgraph: which insertion path a batch takes must depend on the graph that exists now.
func ruleGRDsmallgraph(w *World, r *Report) {
	r.Doc("GRD-smallgraph", "the test that sends a batch down the sequential path (graph too small for parallel insertion) compares the ef threshold with the number of ids currently registered, not with the monotone id counter: an index emptied by delete+vacuum is small again", 1)
	fi := w.Func(hnswPkg, "Index.addBatchInternal")
	if fi == nil {
		r.Und("GRD-smallgraph", "anchor:Index.addBatchInternal", "", "anchor lost")
		return
	}
	fn := w.SSAFunc(fi.Obj)
	var ef *ssa.Parameter
	for _, p := range fn.Params {
		if basicKind(p.Type()) == types.Int && p.Name() != "" && p != fn.Params[0] {
			ef = p
		}
	}
	strip := func(v ssa.Value) ssa.Value {
		for {
			if c, ok := v.(*ssa.Convert); ok {
				v = c.X
				continue
			}
			if cv := capValue(v); cv != v { // a parameter captured by the worker closures lives in an Alloc
				v = cv
				continue
			}
			return v
		}
	}
	n := 0
	for _, b := range fn.Blocks {
		for _, in := range b.Instrs {
			bo, ok := in.(*ssa.BinOp)
			if !ok || bo.Op != token.LSS || ef == nil || strip(bo.Y) != ssa.Value(ef) {
				continue
			}
			// the true edge must lead to the sequential insertion (a call of addActive / Add)
			t, _ := condEdges(bo)
			seq := false
			for _, e := range t {
				if found, _ := (pathQuery{fn: fn, target: func(x ssa.Instruction) bool {
					return isModCall(x, hnswPkg, "Index.addActive") || isModCall(x, hnswPkg, "Index.Add")
				}}).find(ipos{e.from.Succs[e.succ], -1}); found {
					seq = true
				}
			}
			if !seq {
				continue
			}
			n++
			x := strip(bo.X)
			verdict, why := "", ""
			if a, isLen := lenArg(x); isLen && hnswFieldLoad(a, "externalToInternalID") {
				verdict = "ok"
			} else if c, ok := x.(*ssa.Call); ok {
				if o := calleeObj(&c.Call); o != nil && o.Pkg() != nil && o.Pkg().Path() == "sync/atomic" && recvIsField(c, "nodeCounter") {
					verdict, why = "bad", "the id counter, which only grows"
				}
			}
			switch verdict {
			case "ok":
				r.Ok("GRD-smallgraph", "addBatchInternal:small-graph-test", w.Pos(bo.Pos()), "compares len(externalToInternalID) with the ef threshold")
			case "bad":
				r.Bad("GRD-smallgraph", "addBatchInternal:small-graph-test", w.Pos(bo.Pos()), "addBatchInternal decides between sequential and parallel insertion by "+why+": after the index was emptied (delete everything, vacuum) a batch is inserted by the parallel path into an empty graph, its nodes cannot see each other, and search finds almost nothing (recall 0.007 measured)")
			default:
				r.Und("GRD-smallgraph", "addBatchInternal:small-graph-test", w.Pos(bo.Pos()), "the size compared with the ef threshold is neither len(externalToInternalID) nor the id counter: not recognised")
			}
		}
	}
	if n == 0 {
		r.Und("GRD-smallgraph", "anchor:addBatchInternal:small-graph-test", w.Pos(fi.Decl.Pos()), "no `size < ef` test in front of the sequential insertion found")
	}
}

// ruleGRDrelink: a restart links EVERY restored node to its vector, tombstones included. The layer search walks
// through soft-deleted nodes (GRD-traverse); a tombstone that comes back from a snapshot without its vector cannot be
// walked through, and if it is the entry point every search returns nothing.
func ruleGRDrelink(w *World, r *Report) {
	r.Doc("GRD-relink", "LoadSnapshotData fetches the arena bytes of a restored node and attaches the vector on both outcomes of every Deleted test: soft-deleted nodes keep their vectors across a restart, so the search can still walk through them", 1)
	fi := w.Func(hnswPkg, "Index.LoadSnapshotData")
	if fi == nil {
		r.Und("GRD-relink", "anchor:Index.LoadSnapshotData", "", "anchor lost")
		return
	}
	fn := w.SSAFunc(fi.Obj)
	links := findInstrs(fn, func(in ssa.Instruction) bool {
		return isModCall(in, "pkg/storage/mmap", "VectorArena.GetBytes") || isModCall(in, hnswPkg, "Node.SetVector")
	})
	if len(links) == 0 {
		r.Und("GRD-relink", "LoadSnapshotData:relink", w.Pos(fi.Decl.Pos()), "LoadSnapshotData no longer relinks node vectors to the arena (shape not recognised)")
		return
	}
	var tests []*ssa.Call
	for _, in := range findInstrs(fn, func(in ssa.Instruction) bool {
		c, ok := in.(*ssa.Call)
		if !ok {
			return false
		}
		o := calleeObj(&c.Call)
		return o != nil && o.Pkg() != nil && o.Pkg().Path() == "sync/atomic" && shortName(o) == "Bool.Load" && recvIsField(c, "Deleted")
	}) {
		tests = append(tests, in.(*ssa.Call))
	}
	bad := false
	var at ssa.Instruction
	for _, l := range links {
		for _, t := range tests {
			tr, fl := condEdges(t)
			for _, e := range append(tr, fl...) {
				s := e.from.Succs[e.succ]
				if len(s.Preds) == 1 && (s == l.Block() || s.Dominates(l.Block())) {
					bad, at = true, t
				}
			}
		}
	}
	pos := w.Pos(links[0].Pos())
	if at != nil {
		pos = w.Pos(at.Pos())
	}
	r.Cond(!bad, "GRD-relink", "LoadSnapshotData:relink-independent-of-deleted", pos, fmt.Sprintf("all %d relink steps are reached on both outcomes of every Deleted test", len(links)), "LoadSnapshotData attaches a restored node's vector only on one outcome of a Deleted test: after a restart soft-deleted nodes have no vector, the layer search can no longer walk through them, and a deleted entry point makes every search return nothing until the next vacuum")
}

// ruleGRDquerynorm: whether the query is normalised must not depend on the storage precision. (The int8 path quantizes
// the query with a scale learnt from the data; a cosine query of arbitrary length that is not brought to unit length
// first is clipped.)
func ruleGRDquerynorm(w *World, r *Report) {
	r.Doc("GRD-querynorm", "in searchInternal the decision to normalise the query (truth table over the index's metric/precision tests, computed on SSA) does not depend on the precision: a cosine query is prepared the same way for float32, float16 and int8 indexes", 1)
	fi := w.Func(hnswPkg, "Index.searchInternal")
	if fi == nil {
		r.Und("GRD-querynorm", "anchor:Index.searchInternal", "", "anchor lost")
		return
	}
	fn := w.SSAFunc(fi.Obj)
	norm := w.FuncObj(hnswPkg, "normalize")
	if norm == nil {
		r.Und("GRD-querynorm", "anchor:normalize", "", "anchor lost")
		return
	}
	sites := findInstrs(fn, callsTo(norm))
	if len(sites) == 0 {
		r.Ok("GRD-querynorm", "searchInternal:normalisation-independent-of-precision", w.Pos(fi.Decl.Pos()), "the query is never normalised here (nothing that could depend on the precision)")
		return
	}
	all := map[*ssa.BasicBlock]bool{}
	for _, b := range fn.Blocks {
		all[b] = true
	}
	tbl, keys := truthTable(fn, all, func(assume map[ssa.Value]bool) bool {
		found, _ := pathQuery{fn: fn, target: callsTo(norm), assume: assume}.find(entryPos(fn))
		return found
	})
	dep := strings.Contains(tbl, "precision")
	r.Cond(!dep, "GRD-querynorm", "searchInternal:normalisation-independent-of-precision", w.Pos(sites[0].Pos()), "the query is normalised on {"+tbl+"} (atoms considered: "+strings.Join(keys, ", ")+")", "searchInternal normalises the query on {"+tbl+"}, which depends on the storage precision: on an int8 (or float16) cosine index a query that is not of unit length is quantized as it is and clipped — recall drops and the answer changes when the query is rescaled")
}

// ruleGRDdescent: the top-down descent of searchInternal survives a layer without a live node. The layer search
// leaves soft-deleted nodes out of its results, so an upper layer whose nodes are all tombstones (delete the few
// vectors that live on the top layer) yields an empty result; ending the query there makes every search on the index
// come back empty until a vacuum re-elects the entry point.
func ruleGRDdescent(w *World, r *Report) {
	r.Doc("GRD-descent", "in searchInternal an empty result of an upper-layer search never ends the query: from the `len(result) == 0` edge no return is reachable without the base-layer search", 1)
	fi := w.Func(hnswPkg, "Index.searchInternal")
	sl := w.FuncObj(hnswPkg, "Index.searchLayerUnlocked")
	if fi == nil || sl == nil {
		r.Und("GRD-descent", "anchor:searchInternal/searchLayerUnlocked", "", "anchor lost")
		return
	}
	fn := w.SSAFunc(fi.Obj)
	if len(findInstrs(fn, callsTo(sl))) == 0 { // the descent may be a phase function of its own
		for _, h := range w.extractedHelpers(fn) {
			if len(findInstrs(h, callsTo(sl))) > 0 {
				fn = h
				break
			}
		}
	}
	layerCalls := findInstrs(fn, callsTo(sl))
	levelOf := func(c *ssa.Call) (int64, bool) {
		// receiver, query, entrypoint, k, level, ...
		if len(c.Call.Args) < 5 {
			return 0, false
		}
		return constInt(c.Call.Args[4])
	}
	isBase := func(in ssa.Instruction) bool {
		c, ok := in.(*ssa.Call)
		if !ok || calleeObj(&c.Call) != sl {
			return false
		}
		l, ok := levelOf(c)
		return ok && l == 0
	}
	if len(findInstrs(fn, isBase)) == 0 {
		r.Und("GRD-descent", "searchInternal:base-layer-search", w.Pos(fi.Decl.Pos()), "cannot find the base-layer search (searchLayerUnlocked with level 0)")
		return
	}
	// a layer search that itself reports an error (index closed) may end the query: those edges are not the subject
	layerFail := map[edgeKey]bool{}
	for _, lc := range layerCalls {
		for e := range failureEdges(fn, lc.(*ssa.Call)) {
			layerFail[e] = true
		}
	}
	n := 0
	for _, lc := range layerCalls {
		c := lc.(*ssa.Call)
		if isBase(lc) {
			continue
		}
		// len(result) == 0 / != 0 / > 0 tests on this call's result
		res := extractOfValue(c, 0)
		if res == nil {
			continue
		}
		for _, ref := range *res.Referrers() {
			ln, ok := ref.(*ssa.Call)
			if !ok {
				continue
			}
			if _, isLen := isBuiltinCall(ln, "len"); !isLen {
				continue
			}
			for _, r2 := range *ln.Referrers() {
				bo, ok := r2.(*ssa.BinOp)
				if !ok {
					continue
				}
				zero, okc := constInt(bo.Y)
				if !okc || zero != 0 {
					continue
				}
				t, f := condEdges(bo)
				var empty []edgeKey
				switch bo.Op {
				case token.EQL, token.LEQ:
					empty = t
				case token.NEQ, token.GTR:
					empty = f
				default:
					continue
				}
				for _, e := range empty {
					n++
					found, wit := pathQuery{fn: fn, target: isReturn, avoid: isBase, blocked: layerFail}.find(ipos{e.from.Succs[e.succ], -1})
					r.Cond(!found, "GRD-descent", fmt.Sprintf("searchInternal:empty-layer#%d:query-continues", n), w.Pos(bo.Pos()), "an empty upper-layer result leads on to the base-layer search", "searchInternal returns as soon as the search of an upper layer comes back empty: that layer's nodes may all be soft-deleted (they are left out of layer results but still walked through), so deleting the few vectors that live on the top layer makes every query return nothing until the next vacuum", w.witness(wit)...)
				}
			}
		}
	}
	if n == 0 {
		r.Ok("GRD-descent", "searchInternal:empty-layer:query-continues", w.Pos(fi.Decl.Pos()), "the descent never branches on an empty layer result")
	}
}
