package main

// rules_bfs.go — GRD-bfs / GRD-path on SSA, by role instead of by variable name.
//
// Roles are found structurally: a WORK LIST is a slice "web" (a variable followed through phis, re-slicing, append,
// captured cells of closures) that is appended to and read from inside one loop; a VISITED SET is a map that is
// looked up on the way to an enqueue and updated next to it; the DEPTH of an item is an integer field of the element
// read from the work list; the BOUND is what that depth is compared with. No identifier name is consulted.

import (
	"fmt"
	"go/token"
	"go/types"
	"sort"

	"golang.org/x/tools/go/ssa"
)

type sliceWebs struct {
	parent map[ssa.Value]ssa.Value
}

func (u *sliceWebs) find(v ssa.Value) ssa.Value {
	p, ok := u.parent[v]
	if !ok {
		u.parent[v] = v
		return v
	}
	if p == v {
		return v
	}
	r := u.find(p)
	u.parent[v] = r
	return r
}

func (u *sliceWebs) union(a, b ssa.Value) {
	if a == nil || b == nil {
		return
	}
	ra, rb := u.find(a), u.find(b)
	if ra != rb {
		u.parent[ra] = rb
	}
}

func isSliceType(t types.Type) bool {
	_, ok := t.Underlying().(*types.Slice)
	return ok
}

// cellRoot: a captured variable's cell as the enclosing function knows it.
func cellRoot(addr ssa.Value) ssa.Value {
	for depth := 0; depth < 6; depth++ {
		fv, ok := addr.(*ssa.FreeVar)
		if !ok {
			return addr
		}
		par := fv.Parent().Parent()
		if par == nil {
			return addr
		}
		idx := -1
		for i, x := range fv.Parent().FreeVars {
			if x == fv {
				idx = i
			}
		}
		var bound ssa.Value
		for _, f := range append([]*ssa.Function{par}, closuresOf(par)...) {
			for _, b := range f.Blocks {
				for _, in := range b.Instrs {
					if mc, ok := in.(*ssa.MakeClosure); ok && mc.Fn == fv.Parent() && idx >= 0 && idx < len(mc.Bindings) {
						bound = mc.Bindings[idx]
					}
				}
			}
		}
		if bound == nil {
			return addr
		}
		addr = bound
	}
	return addr
}

func buildSliceWebs(fns []*ssa.Function) *sliceWebs {
	u := &sliceWebs{parent: map[ssa.Value]ssa.Value{}}
	for _, f := range fns {
		for _, b := range f.Blocks {
			for _, in := range b.Instrs {
				switch x := in.(type) {
				case *ssa.Phi:
					if isSliceType(x.Type()) {
						for _, e := range x.Edges {
							u.union(x, e)
						}
					}
				case *ssa.Call:
					if c, ok := isBuiltinCall(x, "append"); ok && len(c.Call.Args) > 0 {
						u.union(c, c.Call.Args[0])
					}
				case *ssa.Slice:
					if isSliceType(x.X.Type()) {
						u.union(x, x.X)
					}
				case *ssa.ChangeType:
					if isSliceType(x.Type()) {
						u.union(x, x.X)
					}
				case *ssa.UnOp:
					if x.Op == token.MUL && isSliceType(x.Type()) {
						u.union(x, cellRoot(x.X))
					}
				case *ssa.Store:
					if isSliceType(x.Val.Type()) {
						u.union(x.Val, cellRoot(x.Addr))
					}
				}
			}
		}
	}
	return u
}

// closureSites: where closure c is created or called in root (blocks of root).
func closureSites(root, c *ssa.Function) []ssa.Instruction {
	var out []ssa.Instruction
	var mcs []*ssa.MakeClosure
	for _, b := range root.Blocks {
		for _, in := range b.Instrs {
			if mc, ok := in.(*ssa.MakeClosure); ok && mc.Fn == c {
				mcs = append(mcs, mc)
			}
		}
	}
	for _, b := range root.Blocks {
		for _, in := range b.Instrs {
			call, ok := in.(*ssa.Call)
			if !ok || call.Call.IsInvoke() {
				continue
			}
			for _, leaf := range valueRoots(call.Call.Value) {
				for _, mc := range mcs {
					if leaf == ssa.Value(mc) {
						out = append(out, in)
					}
				}
			}
		}
	}
	if len(out) == 0 {
		for _, mc := range mcs {
			out = append(out, mc)
		}
	}
	return out
}

// isIncrementing: v is a counter that starts at a constant and grows by one per iteration (`for i := …; i++`, or the
// hidden index of a range loop), possibly read after the increment.
func isIncrementing(v ssa.Value) bool {
	incOf := func(p *ssa.Phi) bool {
		for _, e := range p.Edges {
			if bo, ok := e.(*ssa.BinOp); ok && bo.Op == token.ADD && bo.X == ssa.Value(p) {
				if c, ok := constInt(bo.Y); ok && c == 1 {
					return true
				}
			}
		}
		return false
	}
	switch x := v.(type) {
	case *ssa.Phi:
		return incOf(x)
	case *ssa.BinOp:
		if x.Op == token.ADD {
			if p, ok := x.X.(*ssa.Phi); ok {
				if c, ok := constInt(x.Y); ok && c == 1 && incOf(p) {
					return true
				}
			}
		}
	}
	return false
}

const boundInf = int64(1) << 40

// intBound: an upper (upper=true) or lower bound of integer value v as it arrives over the edge pred→blk (blk == nil:
// at its definition), refined by the comparisons that edge is known to have passed.
func intBound(v ssa.Value, pred, blk *ssa.BasicBlock, upper bool, depth int) int64 {
	worst := boundInf
	if !upper {
		worst = -boundInf
	}
	if depth > 12 {
		return worst
	}
	best := worst
	better := func(c int64) {
		if upper && c < best || !upper && c > best {
			best = c
		}
	}
	// refinement by the branch conditions on the way into blk
	p, b := pred, blk
	for steps := 0; p != nil && b != nil && steps < 8; steps++ {
		if len(p.Instrs) > 0 {
			if iff, ok := p.Instrs[len(p.Instrs)-1].(*ssa.If); ok && len(p.Succs) == 2 && p.Succs[0] != p.Succs[1] {
				taken := p.Succs[0] == b
				cond, neg := iff.Cond, false
				if u, ok := cond.(*ssa.UnOp); ok && u.Op == token.NOT {
					cond, neg = u.X, true
				}
				if bo, ok := cond.(*ssa.BinOp); ok {
					holds := taken != neg
					op, x, y := bo.Op, bo.X, bo.Y
					if y == v { // c op v  ==  v op' c
						x, y = y, x
						switch op {
						case token.LSS:
							op = token.GTR
						case token.LEQ:
							op = token.GEQ
						case token.GTR:
							op = token.LSS
						case token.GEQ:
							op = token.LEQ
						}
					}
					if x == v {
						if c, ok := constInt(y); ok {
							if !holds { // negate
								switch op {
								case token.LSS:
									op = token.GEQ
								case token.LEQ:
									op = token.GTR
								case token.GTR:
									op = token.LEQ
								case token.GEQ:
									op = token.LSS
								default:
									op = token.ILLEGAL
								}
							}
							switch op {
							case token.LSS:
								if upper {
									better(c - 1)
								}
							case token.LEQ:
								if upper {
									better(c)
								}
							case token.GTR:
								if !upper {
									better(c + 1)
								}
							case token.GEQ:
								if !upper {
									better(c)
								}
							case token.EQL:
								better(c)
							}
						}
					}
				}
			}
		}
		if len(p.Preds) != 1 {
			break
		}
		b, p = p, p.Preds[0]
	}
	var own int64
	switch x := v.(type) {
	case *ssa.Const:
		if c, ok := constInt(x); ok {
			own = c
		} else {
			own = worst
		}
	case *ssa.Phi:
		own = -boundInf
		if !upper {
			own = boundInf
		}
		for i, e := range x.Edges {
			if e == ssa.Value(x) {
				continue
			}
			// a counter: phi(c, phi + k). Growing (k >= 0) keeps the lower bound, shrinking keeps the upper bound.
			if bo, ok := e.(*ssa.BinOp); ok && (bo.Op == token.ADD || bo.Op == token.SUB) && bo.X == ssa.Value(x) {
				if k, ok := constInt(bo.Y); ok {
					grows := (bo.Op == token.ADD) == (k >= 0)
					if grows && !upper || !grows && upper {
						continue
					}
				}
			}
			eb := intBound(e, x.Block().Preds[i], x.Block(), upper, depth+1)
			if upper && eb > own || !upper && eb < own {
				own = eb
			}
		}
	case *ssa.Convert:
		own = intBound(x.X, nil, nil, upper, depth+1)
	case *ssa.Call:
		own = worst
		if bi, ok := x.Call.Value.(*ssa.Builtin); ok && (bi.Name() == "min" && upper || bi.Name() == "max" && !upper) {
			for _, a := range x.Call.Args {
				ab := intBound(a, nil, nil, upper, depth+1)
				if upper && ab < own || !upper && ab > own {
					own = ab
				}
			}
		}
	default:
		own = worst
	}
	if upper && own < best || !upper && own > best {
		best = own
	}
	return best
}

// elemIntField: v is an integer field of an element read from slice web `web`.
func elemIntField(v ssa.Value, u *sliceWebs, web ssa.Value) bool {
	fromElem := func(base ssa.Value) bool {
		for _, leaf := range valueRoots(base) {
			if ld, ok := leaf.(*ssa.UnOp); ok && ld.Op == token.MUL {
				if ia, ok := ld.X.(*ssa.IndexAddr); ok && isSliceType(ia.X.Type()) && u.find(ia.X) == web {
					return true
				}
			}
		}
		return false
	}
	if b, ok := v.Type().Underlying().(*types.Basic); !ok || b.Info()&types.IsInteger == 0 {
		return false
	}
	switch x := v.(type) {
	case *ssa.Field:
		return fromElem(x.X)
	case *ssa.UnOp:
		if x.Op != token.MUL {
			return false
		}
		fa, ok := x.X.(*ssa.FieldAddr)
		if !ok {
			return false
		}
		if ia, ok := fa.X.(*ssa.IndexAddr); ok && isSliceType(ia.X.Type()) && u.find(ia.X) == web {
			return true
		}
		// a local (possibly captured) copy of the element
		cell := cellRoot(fa.X)
		if al, ok := cell.(*ssa.Alloc); ok {
			for _, ref := range *al.Referrers() {
				if st, ok := ref.(*ssa.Store); ok && st.Addr == al && fromElem(st.Val) {
					return true
				}
			}
		}
	}
	return false
}

type worklist struct {
	web     ssa.Value
	appends []ssa.Instruction
	reads   []ssa.Instruction
	loop    *ssa.BasicBlock
}

type traversal struct {
	root *ssa.Function
	fns  []*ssa.Function
	u    *sliceWebs
	wls  []worklist
	locs func(ssa.Instruction) []ssa.Instruction
}

// analyseTraversal finds the work lists of root (and its closures).
func analyseTraversal(root *ssa.Function) *traversal {
	fns := append([]*ssa.Function{root}, closuresOf(root)...)
	// a batch producer: a module function whose result is spread into an append (`queue = append(queue, admit(…)...)`).
	// The elements it returns are enqueued by that append, so the appends that build its result are enqueues made at the
	// call, and its result is one web with the list it is spread into.
	type batch struct {
		app  *ssa.Call // the spreading append
		call *ssa.Call
		h    *ssa.Function
	}
	var batches []batch
	for _, f := range fns {
		for _, b := range f.Blocks {
			for _, in := range b.Instrs {
				c, ok := isBuiltinCall(in, "append")
				if !ok || len(c.Call.Args) != 2 {
					continue
				}
				hc, ok := c.Call.Args[1].(*ssa.Call)
				if !ok || hc.Call.StaticCallee() == nil {
					continue
				}
				h := hc.Call.StaticCallee()
				if h.Parent() != nil || !inModule(h) || len(h.Blocks) == 0 || h == root {
					continue
				}
				batches = append(batches, batch{c, hc, h})
			}
		}
	}
	producerSites := map[*ssa.Function][]ssa.Instruction{}
	for _, bt := range batches {
		if producerSites[bt.h] == nil {
			fns = append(fns, bt.h)
		}
		producerSites[bt.h] = append(producerSites[bt.h], bt.call)
	}
	u := buildSliceWebs(fns)
	for _, bt := range batches {
		u.union(bt.app, bt.call)
		for _, b := range bt.h.Blocks {
			if rt, ok := b.Instrs[len(b.Instrs)-1].(*ssa.Return); ok && len(rt.Results) == 1 && isSliceType(rt.Results[0].Type()) {
				u.union(bt.call, retVal(rt, 0))
			}
		}
	}
	// location of an instruction in terms of root blocks
	var locs func(in ssa.Instruction) []ssa.Instruction
	locs = func(in ssa.Instruction) []ssa.Instruction {
		f := in.Parent()
		if f == root {
			return []ssa.Instruction{in}
		}
		if sites, ok := producerSites[f]; ok {
			var out []ssa.Instruction
			for _, s := range sites {
				out = append(out, locs(s)...)
			}
			return out
		}
		for f.Parent() != nil && f.Parent() != root {
			f = f.Parent()
		}
		return closureSites(root, f)
	}
	type webInfo struct {
		appends, reads []ssa.Instruction
	}
	webs := map[ssa.Value]*webInfo{}
	get := func(k ssa.Value) *webInfo {
		if webs[k] == nil {
			webs[k] = &webInfo{}
		}
		return webs[k]
	}
	for _, f := range fns {
		for _, b := range f.Blocks {
			for _, in := range b.Instrs {
				isBatch := false
				for _, bt := range batches {
					if ssa.Instruction(bt.app) == in {
						isBatch = true // enqueues what the producer admitted: the producer's appends are the enqueue sites
					}
				}
				if c, ok := isBuiltinCall(in, "append"); ok && !isBatch && len(c.Call.Args) > 0 && loopHeaderOfAny(root, locs(in)) != nil {
					get(u.find(c)).appends = append(get(u.find(c)).appends, in)
				}
				if ia, ok := in.(*ssa.IndexAddr); ok && isSliceType(ia.X.Type()) {
					get(u.find(ia.X)).reads = append(get(u.find(ia.X)).reads, in)
				}
			}
		}
	}
	// work lists: appended to and read inside one loop of root
	var wls []worklist
	for k, wi := range webs {
		if len(wi.appends) == 0 || len(wi.reads) == 0 {
			continue
		}
		var common *ssa.BasicBlock
		var inReads []ssa.Instruction
		for _, b := range root.Blocks {
			isHeader := false
			for _, p := range b.Preds {
				if b.Dominates(p) {
					isHeader = true
				}
			}
			if !isHeader {
				continue
			}
			body := loopBlocks(root, b)
			hasA, hasR := false, false
			var rs []ssa.Instruction
			for _, a := range wi.appends {
				for _, l := range locs(a) {
					if body[l.Block()] {
						hasA = true
					}
				}
			}
			for _, rd := range wi.reads {
				for _, l := range locs(rd) {
					if body[l.Block()] {
						hasR = true
						rs = append(rs, rd)
					}
				}
			}
			if hasA && hasR && (common == nil || b.Dominates(common)) {
				common, inReads = b, rs // outermost such loop
			}
		}
		if common != nil {
			wls = append(wls, worklist{k, wi.appends, inReads, common})
		}
	}
	sort.Slice(wls, func(i, j int) bool { return wls[i].appends[0].Pos() < wls[j].appends[0].Pos() })
	return &traversal{root, fns, u, wls, locs}
}

type bfsSpec struct {
	pkg, fn  string
	clampMax int64 // >0: the depth bound must be provably <= clampMax; 0: the bound only has to be positive by default
}

func ruleGRDbfs(w *World, r *Report, specs []bfsSpec, rule string) {
	r.Doc(rule, "every traversal enqueues a node only on the not-present edge of a look-up in a map it updates next to the enqueue (visited set), consumes its work list first-in-first-out (head index, or a counter that grows by one), expands only below a depth bound that is provably clamped, and — roles found structurally on SSA, no identifier names — so terminates on cyclic graphs and records true distances", 4)
	for _, sp := range specs {
		fi := w.Func(sp.pkg, sp.fn)
		if fi == nil {
			r.Und(rule, "anchor:"+sp.fn, "", "anchor lost")
			continue
		}
		root := w.SSAFunc(fi.Obj)
		name := shortName(fi.Obj)
		tr := analyseTraversal(root)
		if len(tr.wls) == 0 { // the search loop may be a phase function of its own
			for _, h := range w.extractedHelpers(root) {
				if t2 := analyseTraversal(h); len(t2.wls) > 0 {
					tr, root = t2, h
					break
				}
			}
		}
		u, fns, wls, locs := tr.u, tr.fns, tr.wls, tr.locs
		if len(wls) == 0 {
			r.Und(rule, name+":enqueue", w.Pos(fi.Decl.Pos()), "no work list found: no slice is both appended to and read inside one loop")
			continue
		}
		nEnq := 0
		for wi, wl := range wls {
			sort.Slice(wl.appends, func(i, j int) bool { return wl.appends[i].Pos() < wl.appends[j].Pos() })
			for _, a := range wl.appends {
				nEnq++
				f := a.Parent()
				// visited maps: maps updated in the region of this enqueue
				marked := map[ssa.Value]bool{}
				for _, b := range f.Blocks {
					for _, in := range b.Instrs {
						if mu, ok := in.(*ssa.MapUpdate); ok {
							if _, isMap := mu.Map.Type().Underlying().(*types.Map); isMap && (b == a.Block() || b.Dominates(a.Block()) || a.Block().Dominates(b)) {
								for _, leaf := range valueRoots(mu.Map) {
									marked[leaf] = true
								}
							}
						}
					}
				}
				isGuard := func(in ssa.Instruction) bool {
					lk, ok := in.(*ssa.Lookup)
					if !ok {
						return false
					}
					if _, isMap := lk.X.Type().Underlying().(*types.Map); !isMap {
						return false
					}
					for _, leaf := range valueRoots(lk.X) {
						if marked[leaf] {
							return true
						}
					}
					return false
				}
				guardVal := func(in ssa.Instruction) ssa.Value {
					lk := in.(*ssa.Lookup)
					if lk.CommaOk {
						for _, ref := range *lk.Referrers() {
							if ex, ok := ref.(*ssa.Extract); ok && ex.Index == 1 {
								return ex
							}
						}
						return nil
					}
					if isBoolType(lk.Type()) {
						return lk
					}
					return nil
				}
				aa := a
				ok, wit := mustPassGuard(f, func(in ssa.Instruction) bool { return in == aa }, isGuard, guardVal, false, nil)
				if len(findInstrs(f, isGuard)) == 0 {
					ok = false
				}
				// marked ⇒ enqueued: once a node is put into the visited set inside the expansion loop, the same iteration
				// enqueues it on every path — a node that is marked but not enqueued is never expanded, and everything
				// reachable only through it is silently missing from the result
				if lh := enclosingLoop(f, a.Block()); lh != nil {
					nMark := 0
					for _, b := range f.Blocks {
						for _, in := range b.Instrs {
							mu, isMU := in.(*ssa.MapUpdate)
							if !isMU || enclosingLoop(f, b) != lh {
								continue
							}
							isMarked := false
							for _, leaf := range valueRoots(mu.Map) {
								if marked[leaf] {
									isMarked = true
								}
							}
							if !isMarked || !(b == a.Block() || b.Dominates(a.Block()) || a.Block().Dominates(b)) {
								continue
							}
							isEnq := func(x ssa.Instruction) bool {
								c, isApp := isBuiltinCall(x, "append")
								return isApp && u.find(c) == wl.web
							}
							// already enqueued before the mark on this path?
							if pre, _ := mustPrecede(f, isEnq, func(x ssa.Instruction) bool { return x == ssa.Instruction(mu) }, nil); pre {
								continue
							}
							found, wit2 := pathQuery{fn: f, target: func(x ssa.Instruction) bool {
								return isReturn(x) || (x.Block() == lh && x == lh.Instrs[0])
							}, avoid: isEnq}.find(posOf(mu))
							nMark++
							r.Cond(!found, rule, fmt.Sprintf("%s:enqueue#%d:mark#%d:marked-implies-enqueued", name, nEnq, nMark), w.Pos(mu.Pos()), "a node put into the visited set is enqueued on every path of the same iteration",
								name+" can mark a node as visited and finish the iteration without enqueuing it (the enqueue became conditional on something else): the node is never expanded, so nodes reachable only through it are missing although they lie within the depth limit", w.witness(wit2)...)
						}
					}
				}
				r.Cond(ok, rule, fmt.Sprintf("%s:enqueue#%d:visited-guard", name, nEnq), w.Pos(a.Pos()), "enqueue is reached only on the not-present edge of a look-up in a map that is updated next to it",
					name+" enqueues a node without a not-visited test on a set it marks: a cycle or self-loop makes the traversal revisit nodes until its caps (or forever), and recorded depths are no longer distances", w.witness(wit)...)
			}
			// first-in-first-out consumption
			fifo := len(wl.reads) > 0
			for _, rd := range wl.reads {
				ia := rd.(*ssa.IndexAddr)
				if c, ok := constInt(ia.Index); ok && c == 0 {
					// head read: the list must be advanced by re-slicing from 1
					adv := false
					for _, f := range fns {
						for _, b := range f.Blocks {
							for _, in := range b.Instrs {
								if sl, ok := in.(*ssa.Slice); ok && isSliceType(sl.X.Type()) && u.find(sl.X) == wl.web && sl.High == nil && sl.Low != nil {
									if lc, ok := constInt(sl.Low); ok && lc == 1 {
										adv = true
									}
								}
							}
						}
					}
					if !adv {
						fifo = false
					}
					continue
				}
				if !isIncrementing(ia.Index) {
					fifo = false
				}
			}
			r.Cond(fifo, rule, fmt.Sprintf("%s:fifo#%d", name, wi+1), w.Pos(wl.reads[0].Pos()), "work list is consumed from the head (element 0 with re-slice from 1, or a counter that grows by one)",
				name+" does not consume its work list first-in-first-out: with visited-on-discovery a depth-first order records too large a depth for nodes first reached over a longer route, so nodes within the limit are cut off")
		}
		// depth bound
		if sp.clampMax > 0 {
			// every enqueue lies behind `depth(elem) < bound`, bound provably <= clampMax
			cutOK, clampOK := true, true
			var cutWit []ssa.Instruction
			found := false
			for _, wl := range wls {
				isCut := func(fits bool) func(ssa.Instruction) bool {
					return func(in ssa.Instruction) bool {
						bo, ok := in.(*ssa.BinOp)
						if !ok {
							return false
						}
						d, bnd, f, ok2 := depthCompare(bo, u, wl.web)
						_, _ = d, bnd
						return ok2 && f == fits
					}
				}
				for _, a := range wl.appends {
					for _, l := range locs(a) {
						ll := l
						tgt := func(in ssa.Instruction) bool { return in == ll }
						gv := func(in ssa.Instruction) ssa.Value { return in.(*ssa.BinOp) }
						ok1, wit1 := mustPassGuard(root, tgt, isCut(false), gv, false, nil)
						if len(findInstrs(root, isCut(false))) == 0 {
							ok1 = false
						}
						if !ok1 {
							ok2, _ := mustPassGuard(root, tgt, isCut(true), gv, true, nil)
							if len(findInstrs(root, isCut(true))) == 0 {
								ok2 = false
							}
							ok1 = ok2
						}
						if !ok1 {
							cutOK, cutWit = false, wit1
						}
					}
				}
				for _, in := range findInstrs(root, func(in ssa.Instruction) bool { return isCut(false)(in) || isCut(true)(in) }) {
					_, bnd, _, _ := depthCompare(in.(*ssa.BinOp), u, wl.web)
					found = true
					if ub := intBound(bnd, nil, nil, true, 0); ub > sp.clampMax {
						clampOK = false
					}
				}
			}
			if !found {
				cutOK, clampOK = false, false
			}
			r.Cond(cutOK, rule, name+":depth-cut", w.Pos(fi.Decl.Pos()), "every enqueue lies behind the comparison of the expanded item's depth with the bound", name+" can enqueue neighbours of an item without having compared the item's depth with the depth bound: the traversal goes deeper than the requested limit", w.witness(cutWit)...)
			r.Cond(clampOK, rule, name+":depth-clamp", w.Pos(fi.Decl.Pos()), fmt.Sprintf("the depth bound is provably <= %d where it is compared", sp.clampMax), fmt.Sprintf("%s compares depths with a bound that is not provably clamped to <= %d: a large requested depth makes the traversal unbounded in practice", name, sp.clampMax))
		}
	}
}

// depthCompare: bo compares an integer field of a work-list element with something else. Returns the depth value, the
// bound, and whether the comparison is true when the item may still be expanded (depth < bound).
func depthCompare(bo *ssa.BinOp, u *sliceWebs, web ssa.Value) (d, bound ssa.Value, fitsOnTrue bool, ok bool) {
	switch bo.Op {
	case token.LSS, token.LEQ, token.GTR, token.GEQ:
	default:
		return nil, nil, false, false
	}
	if elemIntField(bo.X, u, web) {
		return bo.X, bo.Y, bo.Op == token.LSS || bo.Op == token.LEQ, true
	}
	if elemIntField(bo.Y, u, web) {
		return bo.Y, bo.X, bo.Op == token.GTR || bo.Op == token.GEQ, true
	}
	return nil, nil, false, false
}

func loopHeaderOfAny(root *ssa.Function, ins []ssa.Instruction) *ssa.BasicBlock {
	for _, in := range ins {
		if in.Parent() == root {
			if h := enclosingLoop(root, in.Block()); h != nil {
				return h
			}
		}
	}
	return nil
}

// ruleGRDpathFind: FindPath (level-synchronous bidirectional search).
//   - a meeting is declared only on a node taken from a frontier (an element read from a work list), never on a
//     freshly discovered neighbour: with alternating level expansion that can return a path one hop too long;
//   - every enqueue lies in a loop whose exit test compares a counter that grows by one with a bound, and the bound is
//     at least 1 where it is compared (a non-positive request is defaulted).
func ruleGRDpathFind(w *World, r *Report) {
	fi := w.Func("pkg/engine", "Engine.FindPath")
	if fi == nil {
		r.Und("GRD-path", "anchor:FindPath", "", "anchor lost")
		return
	}
	root := w.SSAFunc(fi.Obj)
	tr := analyseTraversal(root)
	if len(tr.wls) == 0 { // the search loop may be a phase function of its own
		for _, h := range w.extractedHelpers(root) {
			if t2 := analyseTraversal(h); len(t2.wls) > 0 {
				tr, root = t2, h
				break
			}
		}
	}
	if len(tr.wls) == 0 {
		r.Und("GRD-path", "FindPath:frontiers", w.Pos(fi.Decl.Pos()), "no frontier work list found (algorithm restructured)")
		return
	}
	// visited maps: maps updated in a block related to an enqueue
	visited := map[ssa.Value]bool{}
	for _, wl := range tr.wls {
		for _, a := range wl.appends {
			f := a.Parent()
			for _, b := range f.Blocks {
				for _, in := range b.Instrs {
					if mu, ok := in.(*ssa.MapUpdate); ok && (b == a.Block() || b.Dominates(a.Block()) || a.Block().Dominates(b)) {
						if mt, isMap := mu.Map.Type().Underlying().(*types.Map); isMap && types.Identical(mt.Key(), mu.Key.Type()) {
							// the visited set is keyed by the node that is enqueued: the key is what gets appended
							for _, leaf := range valueRoots(mu.Map) {
								visited[leaf] = true
							}
						}
					}
				}
			}
		}
	}
	// the outermost search loop
	var outer *ssa.BasicBlock
	for _, wl := range tr.wls {
		if outer == nil || wl.loop.Dominates(outer) {
			outer = wl.loop
		}
	}
	body := loopBlocks(root, outer)
	isFrontierElem := func(v ssa.Value) bool {
		for _, leaf := range valueRoots(v) {
			if ld, ok := leaf.(*ssa.UnOp); ok && ld.Op == token.MUL {
				if ia, ok := ld.X.(*ssa.IndexAddr); ok && isSliceType(ia.X.Type()) {
					for _, wl := range tr.wls {
						if tr.u.find(ia.X) == wl.web {
							return true
						}
					}
				}
			}
		}
		return false
	}
	n, bad := 0, 0
	var badPos token.Pos
	for b := range body {
		for _, in := range b.Instrs {
			lk, ok := in.(*ssa.Lookup)
			if !ok || !lk.CommaOk {
				continue
			}
			isVisited := false
			for _, leaf := range valueRoots(lk.X) {
				if visited[leaf] {
					isVisited = true
				}
			}
			if !isVisited {
				continue
			}
			var okv ssa.Value
			for _, ref := range *lk.Referrers() {
				if ex, isEx := ref.(*ssa.Extract); isEx && ex.Index == 1 {
					okv = ex
				}
			}
			if okv == nil {
				continue
			}
			// does the present edge leave the search loop without going round again?
			tEdges, _ := condEdges(okv)
			leaves := false
			for _, e := range tEdges {
				start := e.from.Succs[e.succ]
				if !body[start] {
					leaves = true
					continue
				}
				// a direct exit: out of the search loop without starting another iteration of any loop on the way
				isHeader := func(b *ssa.BasicBlock) bool {
					for _, p := range b.Preds {
						if b.Dominates(p) {
							return true
						}
					}
					return false
				}
				if f, _ := (pathQuery{fn: root, target: func(x ssa.Instruction) bool { return !body[x.Block()] }, avoid: func(x ssa.Instruction) bool {
					return body[x.Block()] && isHeader(x.Block()) && x == x.Block().Instrs[0]
				}}).find(ipos{start, -1}); f {
					leaves = true
				}
			}
			if !leaves {
				continue
			}
			// an early exit must not be the ordinary loop termination: require that the exit is reachable without
			// passing the outer header's own exit edge
			n++
			if !isFrontierElem(lk.Index) {
				bad++
				badPos = lk.Pos()
			}
		}
	}
	if n == 0 {
		r.Und("GRD-path", "FindPath:meeting-test", w.Pos(fi.Decl.Pos()), "cannot find the meeting test (a visited-set look-up whose present edge leaves the search loop)")
	} else {
		r.Cond(bad == 0, "GRD-path", "FindPath:meeting-on-frontier-node", w.Pos(badPos), "every meeting test is made on a node read from a frontier",
			"FindPath declares a meeting on a node that is not the frontier node being expanded (a freshly discovered neighbour): with alternating level expansion this can return a path one hop longer than the shortest one")
	}
	// rounds bounded
	bounded, dflt := false, false
	if len(outer.Instrs) > 0 {
		if iff, ok := outer.Instrs[len(outer.Instrs)-1].(*ssa.If); ok {
			if bo, ok := iff.Cond.(*ssa.BinOp); ok {
				var ctr, bnd ssa.Value
				switch bo.Op {
				case token.LSS, token.LEQ:
					ctr, bnd = bo.X, bo.Y
				case token.GTR, token.GEQ:
					ctr, bnd = bo.Y, bo.X
				}
				if ctr != nil && isIncrementing(ctr) {
					bounded = true
					if lb := intBound(bnd, nil, nil, false, 0); lb >= 1 {
						dflt = true
					}
					// the search loop is a phase function handed the (defaulted) bound: what its caller passes decides
					if p, isParam := bnd.(*ssa.Parameter); isParam && !dflt && p.Parent() == root {
						if top := w.SSAFunc(fi.Obj); top != root {
							idx, all, n := -1, true, 0
							for i, hp := range root.Params {
								if hp == p {
									idx = i
								}
							}
							for _, cs := range callSitesOf(top, root) {
								n++
								if idx < 0 || idx >= len(cs.Call.Args) || intBound(cs.Call.Args[idx], nil, nil, false, 0) < 1 {
									all = false
								}
							}
							dflt = all && n > 0
						}
					}
				}
			}
		}
	}
	r.Cond(bounded && dflt, "GRD-path", "FindPath:rounds-bounded", w.Pos(fi.Decl.Pos()), "the search loop counts its rounds against a bound that is at least 1 (a non-positive request is defaulted)", "FindPath's expansion loop is no longer bounded by a round counter compared with the (defaulted) depth bound")
}
