package main

// rules_web.go — WEB: routes × effects × policy (C16) and request discipline (C19).

import (
	"fmt"
	"go/ast"
	"go/constant"
	"go/token"
	"go/types"
	"sort"
	"strings"

	"golang.org/x/tools/go/ssa"
	"golang.org/x/tools/go/types/typeutil"
)

type route struct {
	Method  string
	Pattern string
	Handler *types.Func
	Pos     token.Pos
	Root    bool // registered on the outer mux (not behind the auth chain)
}

// routes extracts every mux.Handle/HandleFunc registration with a constant pattern in internal/server.
func (w *World) routes(r *Report, rule string) []route {
	p := w.Pkg("internal/server")
	if p == nil {
		r.Und(rule, "anchor:internal/server", "", "package not loaded")
		return nil
	}
	var out []route
	for _, f := range p.Syntax {
		ast.Inspect(f, func(n ast.Node) bool {
			call, ok := n.(*ast.CallExpr)
			if !ok || len(call.Args) != 2 {
				return true
			}
			sel, ok := call.Fun.(*ast.SelectorExpr)
			if !ok || (sel.Sel.Name != "HandleFunc" && sel.Sel.Name != "Handle") {
				return true
			}
			if !strings.HasSuffix(p.TypesInfo.TypeOf(sel.X).String(), "http.ServeMux") {
				return true
			}
			tv := p.TypesInfo.Types[call.Args[0]]
			if tv.Value == nil || tv.Value.Kind() != constant.String {
				r.Und(rule, "route:non-constant-pattern", w.Pos(call.Pos()), "route registered with a non-constant pattern")
				return true
			}
			pat := constant.StringVal(tv.Value)
			rt := route{Pattern: pat, Pos: call.Pos()}
			if i := strings.IndexByte(pat, ' '); i >= 0 {
				rt.Method, rt.Pattern = pat[:i], strings.TrimSpace(pat[i+1:])
			}
			if id, ok := sel.X.(*ast.Ident); ok && strings.Contains(strings.ToLower(id.Name), "root") {
				rt.Root = true
			}
			switch h := call.Args[1].(type) {
			case *ast.SelectorExpr:
				if fo, ok := p.TypesInfo.Uses[h.Sel].(*types.Func); ok {
					rt.Handler = fo
				}
			case *ast.Ident:
				if fo, ok := p.TypesInfo.Uses[h].(*types.Func); ok {
					rt.Handler = fo
				}
			}
			out = append(out, rt)
			return true
		})
	}
	sort.Slice(out, func(i, j int) bool {
		if out[i].Pattern != out[j].Pattern {
			return out[i].Pattern < out[j].Pattern
		}
		return out[i].Method < out[j].Method
	})
	return out
}

// ---------- WEB-2: effect class of a handler ----------

type effect struct {
	mutating bool
	admin    bool
	via      string
}

func (w *World) handlerEffects(r *Report) func(h *types.Func) effect {
	lr := w.lockAnalysis() // for the VTA graph and callee resolution
	sinks := w.sinkSet(r, "WEB-2")
	mut := map[*types.Func]string{}
	for f, n := range sinks {
		mut[f] = n
	}
	for _, s := range []struct{ pkg, name string }{
		{"pkg/persistence", "LazyAOFWriter.Write"}, {"pkg/engine", "Engine.SaveSnapshot"}, {"pkg/engine", "Engine.RewriteAOF"},
		{"pkg/engine", "Engine.VImport"}, {"pkg/engine", "Engine.VCompress"},
	} {
		if f := w.FuncObj(s.pkg, s.name); f != nil {
			mut[f] = s.name
		}
	}
	adm := map[string]bool{"GenerateKey": true, "RevokeKey": true}
	exemptClosureOf := w.FuncObj("pkg/engine", "Engine.VGetConnections")
	cache := map[*types.Func]effect{}
	return func(h *types.Func) effect {
		if e, ok := cache[h]; ok {
			return e
		}
		start := w.SSAFunc(h)
		var e effect
		seen := map[*ssa.Function]bool{}
		type item struct {
			fn  *ssa.Function
			via string
		}
		queue := []item{{start, shortName(h)}}
		for len(queue) > 0 && start != nil {
			it := queue[0]
			queue = queue[1:]
			if it.fn == nil || seen[it.fn] {
				continue
			}
			seen[it.fn] = true
			if o, ok := it.fn.Object().(*types.Func); ok {
				if n, isMut := mut[o.Origin()]; isMut && !e.mutating {
					e.mutating, e.via = true, it.via+" → "+n
				}
				if relPkg(o) == "pkg/auth" && adm[o.Name()] {
					e.admin = true
					if e.via == "" {
						e.via = it.via
					}
				}
			}
			if !inModule(it.fn) {
				continue
			}
			// documented self-repair: the unlink that VGetConnections spawns for dead links is maintenance
			// triggered by the read, not a caller-chosen mutation
			if par := it.fn.Parent(); par != nil {
				if po, ok := par.Object().(*types.Func); ok && po == exemptClosureOf {
					continue
				}
			}
			node := lr.g.Nodes[it.fn]
			if node == nil {
				continue
			}
			for _, ed := range node.Out {
				if ed.Callee == nil || ed.Callee.Func == nil {
					continue
				}
				cf := ed.Callee.Func
				if cf.Pkg != nil && cf.Pkg.Pkg != nil && !strings.HasPrefix(cf.Pkg.Pkg.Path(), modPath) {
					continue
				}
				v := it.via
				if o, ok := cf.Object().(*types.Func); ok && strings.Count(v, "→") < 4 {
					v = it.via + " → " + shortName(o)
				}
				queue = append(queue, item{cf, v})
			}
			for _, a := range it.fn.AnonFuncs {
				queue = append(queue, item{a, it.via})
			}
		}
		cache[h] = e
		return e
	}
}

// ---------- WEB-3: the policy model extracted from authMiddleware ----------

type atom struct {
	kind string // "method==", "path==", "prefix", "suffix", "last==", "opaque"
	arg  string
}

type literal struct {
	a     atom
	truth bool
}

type policyPath struct {
	lits []literal
	role string
}

func stringOf(v ssa.Value) (string, bool) {
	c, ok := v.(*ssa.Const)
	if !ok || c.Value == nil || c.Value.Kind() != constant.String {
		return "", false
	}
	return constant.StringVal(c.Value), true
}

// reqField: v is a load of the named field of *http.Request / *url.URL.
// reqParamField: parameters of a helper of the auth middleware that are bound to a request field at its only call
// (`requiredRoleFor(r.Method, r.URL.Path)`); filled by extractPolicy.
var reqParamField = map[*ssa.Parameter]string{}

func isReqField(v ssa.Value, field string) bool {
	if p, ok := v.(*ssa.Parameter); ok {
		return reqParamField[p] == field
	}
	u, ok := v.(*ssa.UnOp)
	if !ok || u.Op != token.MUL {
		return false
	}
	switch a := u.X.(type) {
	case *ssa.FieldAddr:
		return fieldName(a) == field
	case *ssa.Alloc: // `path := r.URL.Path` that a function literal captures lives in a cell: one store, of the field
		if st := cellStores(a); len(st) == 1 {
			return isReqField(st[0].Val, field)
		}
	case *ssa.FreeVar:
		if al, ok := freeVarBinding(a).(*ssa.Alloc); ok {
			if st := cellStores(al); len(st) == 1 {
				return isReqField(st[0].Val, field)
			}
		}
	}
	return false
}

// prefixListTest: slices.ContainsFunc(<list of constant strings>, func(p string) bool { return strings.HasPrefix(<request path>, p) })
// — "the path starts with one of these"; returns the constants.
func prefixListTest(c *ssa.Call) ([]string, bool) {
	g := c.Call.StaticCallee()
	if g == nil || len(c.Call.Args) != 2 {
		return nil, false
	}
	o := g
	if g.Origin() != nil {
		o = g.Origin()
	}
	if o.Pkg == nil || o.Pkg.Pkg.Path() != "slices" || o.Name() != "ContainsFunc" {
		return nil, false
	}
	sl, ok := c.Call.Args[0].(*ssa.Slice)
	if !ok {
		return nil, false
	}
	al, ok := sl.X.(*ssa.Alloc)
	if !ok || al.Referrers() == nil {
		return nil, false
	}
	var consts []string
	for _, ref := range *al.Referrers() {
		ia, ok := ref.(*ssa.IndexAddr)
		if !ok {
			if ref != ssa.Instruction(sl) {
				return nil, false
			}
			continue
		}
		for _, rr := range *ia.Referrers() {
			st, ok := rr.(*ssa.Store)
			if !ok {
				return nil, false
			}
			k, ok := stringOf(st.Val)
			if !ok {
				return nil, false
			}
			consts = append(consts, k)
		}
	}
	mc, ok := c.Call.Args[1].(*ssa.MakeClosure)
	if !ok {
		return nil, false
	}
	pred, ok := mc.Fn.(*ssa.Function)
	if !ok || len(pred.Blocks) != 1 || len(pred.Params) != 1 {
		return nil, false
	}
	ret, ok := pred.Blocks[0].Instrs[len(pred.Blocks[0].Instrs)-1].(*ssa.Return)
	if !ok || len(ret.Results) != 1 {
		return nil, false
	}
	hp, ok := ret.Results[0].(*ssa.Call)
	if !ok || len(hp.Call.Args) != 2 {
		return nil, false
	}
	if ho := calleeObj(&hp.Call); ho == nil || ho.Pkg() == nil || ho.Pkg().Path() != "strings" || ho.Name() != "HasPrefix" {
		return nil, false
	}
	if hp.Call.Args[1] != ssa.Value(pred.Params[0]) || !isReqField(hp.Call.Args[0], "Path") {
		return nil, false
	}
	sort.Strings(consts)
	return consts, len(consts) > 0
}

func isLastSegment(v ssa.Value) bool {
	sl, ok := v.(*ssa.Slice)
	if !ok || sl.High != nil || sl.Low == nil || !isReqField(sl.X, "Path") {
		return false
	}
	bo, ok := sl.Low.(*ssa.BinOp)
	if !ok || bo.Op != token.ADD {
		return false
	}
	if k, ok := constInt(bo.Y); !ok || k != 1 {
		return false
	}
	c, ok := bo.X.(*ssa.Call)
	if !ok {
		return false
	}
	o := calleeObj(&c.Call)
	if o == nil || o.Pkg() == nil || o.Pkg().Path() != "strings" || o.Name() != "LastIndex" {
		return false
	}
	sep, _ := stringOf(c.Call.Args[1])
	return sep == "/" && isReqField(c.Call.Args[0], "Path")
}

func condAtom(v ssa.Value) (atom, bool, bool) { // atom, negated, ok
	switch x := v.(type) {
	case *ssa.UnOp:
		if x.Op == token.NOT {
			a, neg, ok := condAtom(x.X)
			return a, !neg, ok
		}
	case *ssa.BinOp:
		if x.Op == token.EQL || x.Op == token.NEQ {
			neg := x.Op == token.NEQ
			l, r := x.X, x.Y
			if _, ok := stringOf(l); ok {
				l, r = r, l
			}
			if s, ok := stringOf(r); ok {
				switch {
				case isReqField(l, "Method"):
					return atom{"method==", s}, neg, true
				case isReqField(l, "Path"):
					return atom{"path==", s}, neg, true
				case isLastSegment(l):
					return atom{"last==", s}, neg, true
				}
			}
		}
	case *ssa.Lookup: // `readActionNames[lastSegment]`: membership in a package-level table of constant names
		if names, ok := constNameSet(x.X); ok && !x.CommaOk {
			switch {
			case isLastSegment(x.Index):
				return atom{"last-in", strings.Join(names, "\x1f")}, false, true
			case isReqField(x.Index, "Path"):
				return atom{"path-in", strings.Join(names, "\x1f")}, false, true
			}
		}
	case *ssa.Call:
		if list, ok := prefixListTest(x); ok {
			return atom{"prefix-any", strings.Join(list, "\x1f")}, false, true
		}
		if o := calleeObj(&x.Call); o != nil && o.Pkg() != nil && o.Pkg().Path() == "strings" && len(x.Call.Args) == 2 {
			if s, ok := stringOf(x.Call.Args[1]); ok && isReqField(x.Call.Args[0], "Path") {
				switch o.Name() {
				case "HasPrefix":
					return atom{"prefix", s}, false, true
				case "HasSuffix":
					return atom{"suffix", s}, false, true
				}
			}
		}
	}
	return atom{"opaque", ""}, false, false
}

// extractPolicy enumerates the acyclic CFG paths of the auth closure from its entry to the HasAccess call and
// records, per path, the request tests taken and the role constant that reaches HasAccess.
func (w *World) extractPolicy(r *Report) ([]policyPath, *ssa.Function) {
	mw := w.Func("internal/server", "Server.authMiddleware")
	ha := w.FuncObj("pkg/auth", "APIKeyPolicy.HasAccess")
	if mw == nil || ha == nil {
		r.Und("WEB-3", "anchor:authMiddleware/HasAccess", "", "anchor lost")
		return nil, nil
	}
	outer := w.SSAFunc(mw.Obj)
	var fn *ssa.Function
	// the access check: HasAccess itself, or a function of the package that runs it over the request's namespaces
	// (`ns, denied := firstDeniedNamespace(policy, requiredRole, r)`) — the role it checks is then the argument that
	// feeds the parameter handed to HasAccess
	roleArgOf := func(c *ssa.Call) ssa.Value {
		if callsTo(ha)(c) {
			return c.Call.Args[1]
		}
		g := c.Call.StaticCallee()
		if g == nil || g.Pkg != outer.Pkg || len(g.Blocks) == 0 || len(c.Call.Args) != len(g.Params) {
			return nil
		}
		for _, hc := range findInstrs(g, callsTo(ha)) {
			if p := capturedParam(hc.(*ssa.Call).Call.Args[1]); p != nil && p.Parent() == g {
				for i, gp := range g.Params {
					if gp == p {
						return c.Call.Args[i]
					}
				}
			}
		}
		return nil
	}
	isAccessCheck := func(in ssa.Instruction) bool {
		c, ok := in.(*ssa.Call)
		return ok && roleArgOf(c) != nil
	}
	for _, a := range outer.AnonFuncs {
		if len(findInstrs(a, isAccessCheck)) > 0 {
			fn = a
		}
	}
	if fn == nil {
		r.Und("WEB-3", "anchor:auth-closure", w.Pos(mw.Decl.Pos()), "the middleware closure that calls HasAccess was not found")
		return nil, nil
	}
	target := findInstrs(fn, isAccessCheck)[0].(*ssa.Call)
	roleArg := roleArgOf(target)
	var paths []policyPath
	// the role may be computed by a helper of the package from the request's method and path
	// (`requiredRole := requiredRoleFor(r.Method, r.URL.Path)`): its decision paths are enumerated like the closure's
	var helperPaths []policyPath
	if hc, ok := roleArg.(*ssa.Call); ok {
		if g := hc.Call.StaticCallee(); g != nil && g.Pkg == fn.Pkg && len(g.Blocks) > 0 && len(hc.Call.Args) == len(g.Params) {
			bound := true
			for i, a := range hc.Call.Args {
				switch {
				case isReqField(a, "Method"):
					reqParamField[g.Params[i]] = "Method"
				case isReqField(a, "Path"):
					reqParamField[g.Params[i]] = "Path"
				default:
					bound = false
				}
			}
			if bound {
				helperPaths = enumerateRolePaths(g)
			}
		}
	}
	var resolve func(v ssa.Value, trail []*ssa.BasicBlock, depth int) (string, bool)
	resolve = func(v ssa.Value, trail []*ssa.BasicBlock, depth int) (string, bool) {
		if depth > 20 {
			return "", false
		}
		if s, ok := stringOf(v); ok {
			return s, true
		}
		if c, ok := v.(*ssa.Const); ok && c.Value != nil && c.Value.Kind() == constant.Bool {
			return fmt.Sprint(constant.BoolVal(c.Value)), true
		}
		switch x := v.(type) {
		case *ssa.Phi:
			// which predecessor of the phi's block is on the trail?
			b := x.Block()
			for i := len(trail) - 1; i > 0; i-- {
				if trail[i] == b {
					for pi, p := range b.Preds {
						if p == trail[i-1] {
							return resolve(x.Edges[pi], trail[:i], depth+1)
						}
					}
				}
			}
		case *ssa.ChangeType:
			return resolve(x.X, trail, depth+1)
		case *ssa.Convert:
			return resolve(x.X, trail, depth+1)
		}
		return "", false
	}
	var dfs func(b *ssa.BasicBlock, trail []*ssa.BasicBlock, lits []literal, onStack map[*ssa.BasicBlock]bool)
	nPaths := 0
	dfs = func(b *ssa.BasicBlock, trail []*ssa.BasicBlock, lits []literal, onStack map[*ssa.BasicBlock]bool) {
		if nPaths > 5000 || onStack[b] {
			return
		}
		trail = append(trail, b)
		if b == target.Block() {
			role, ok := resolve(roleArg, trail, 0)
			if !ok && len(helperPaths) > 0 {
				for _, hp := range helperPaths {
					nPaths++
					paths = append(paths, policyPath{append(append([]literal{}, lits...), hp.lits...), hp.role})
				}
				return
			}
			if !ok {
				role = "?"
			}
			nPaths++
			paths = append(paths, policyPath{append([]literal{}, lits...), role})
			return
		}
		onStack[b] = true
		defer delete(onStack, b)
		term := b.Instrs[len(b.Instrs)-1]
		iff, isIf := term.(*ssa.If)
		if !isIf {
			for _, s := range b.Succs {
				dfs(s, trail, lits, onStack)
			}
			return
		}
		// boolean phi conditions resolved along the trail (isReadAction etc.)
		if val, ok := resolve(iff.Cond, trail, 0); ok && (val == "true" || val == "false") {
			if val == "true" {
				dfs(b.Succs[0], trail, lits, onStack)
			} else {
				dfs(b.Succs[1], trail, lits, onStack)
			}
			return
		}
		a, neg, ok := condAtom(followPhis(iff.Cond, trail))
		if !ok {
			dfs(b.Succs[0], trail, lits, onStack)
			dfs(b.Succs[1], trail, lits, onStack)
			return
		}
		dfs(b.Succs[0], trail, append(lits, literal{a, !neg}), onStack)
		dfs(b.Succs[1], trail, append(lits, literal{a, neg}), onStack)
	}
	dfs(fn.Blocks[0], nil, nil, map[*ssa.BasicBlock]bool{})
	return paths, fn
}

// tri-valued evaluation of a literal against a route (method, pattern)
const (
	triFalse = 0
	triTrue  = 1
	triMaybe = 2
)

func patternParts(pat string) (segs []string, trailingSlash bool) {
	p := strings.Trim(pat, "/")
	if p == "" {
		return nil, strings.HasSuffix(pat, "/")
	}
	return strings.Split(p, "/"), strings.HasSuffix(pat, "/")
}

func isWild(seg string) bool { return strings.HasPrefix(seg, "{") && strings.HasSuffix(seg, "}") }

func evalAtom(a atom, method, pattern string) int {
	segs, trailing := patternParts(pattern)
	hasWild := trailing // "/ui/" style subtree patterns match any continuation
	for _, s := range segs {
		if isWild(s) {
			hasWild = true
		}
	}
	litPrefix := "/"
	for _, s := range segs {
		if isWild(s) {
			break
		}
		litPrefix += s + "/"
	}
	if !hasWild {
		litPrefix = pattern
	}
	litSuffix := ""
	if !trailing {
		for i := len(segs) - 1; i >= 0; i-- {
			if isWild(segs[i]) {
				break
			}
			litSuffix = "/" + segs[i] + litSuffix
		}
		if !hasWild {
			litSuffix = pattern
		}
	}
	b2t := func(b bool) int {
		if b {
			return triTrue
		}
		return triFalse
	}
	switch a.kind {
	case "method==":
		if method == "" {
			return triMaybe
		}
		return b2t(method == a.arg)
	case "path==":
		if !hasWild {
			return b2t(pattern == a.arg)
		}
		asegs, _ := patternParts(a.arg)
		if trailing {
			if strings.HasPrefix(a.arg, litPrefix) {
				return triMaybe
			}
			return triFalse
		}
		if len(asegs) != len(segs) {
			return triFalse
		}
		for i := range segs {
			if !isWild(segs[i]) && segs[i] != asegs[i] {
				return triFalse
			}
		}
		return triMaybe
	case "last-in", "path-in":
		res := triFalse
		kind := "last=="
		if a.kind == "path-in" {
			kind = "path=="
		}
		for _, one := range strings.Split(a.arg, "\x1f") {
			switch evalAtom(atom{kind, one}, method, pattern) {
			case triTrue:
				return triTrue
			case triMaybe:
				res = triMaybe
			}
		}
		return res
	case "prefix-any":
		res := triFalse
		for _, one := range strings.Split(a.arg, "\x1f") {
			switch evalAtom(atom{"prefix", one}, method, pattern) {
			case triTrue:
				return triTrue
			case triMaybe:
				res = triMaybe
			}
		}
		return res
	case "prefix":
		if !hasWild {
			return b2t(strings.HasPrefix(pattern, a.arg))
		}
		if len(a.arg) <= len(litPrefix) {
			return b2t(strings.HasPrefix(litPrefix, a.arg))
		}
		if strings.HasPrefix(a.arg, litPrefix) {
			return triMaybe
		}
		return triFalse
	case "suffix":
		if !hasWild {
			return b2t(strings.HasSuffix(pattern, a.arg))
		}
		if trailing {
			return triMaybe
		}
		if len(a.arg) <= len(litSuffix) {
			return b2t(strings.HasSuffix(litSuffix, a.arg))
		}
		if strings.HasSuffix(a.arg, litSuffix) {
			// the part of the argument before the literal suffix must be producible by the wildcard segment
			rest := strings.TrimSuffix(a.arg, litSuffix)
			if !strings.Contains(rest, "/") {
				return triMaybe
			}
			return triMaybe
		}
		return triFalse
	case "last==":
		if trailing {
			return triMaybe
		}
		if len(segs) == 0 {
			return b2t(a.arg == "")
		}
		last := segs[len(segs)-1]
		if isWild(last) {
			return triMaybe
		}
		return b2t(last == a.arg)
	}
	return triMaybe
}

var roleRank = map[string]int{"read": 1, "write": 2, "admin": 3}

func ruleWEB3(w *World, r *Report) {
	r.Doc("WEB-1", "every route of the HTTP surface is registered with a constant pattern and a resolvable handler", 60)
	r.Doc("WEB-3", "for every route behind the auth chain and every instantiation of its wildcards, the role the middleware's decision procedure can require is at least the effect class of the handler (mutating → write, key management → admin): evaluated on the decision paths extracted from authMiddleware's SSA", 60)
	routes := w.routes(r, "WEB-1")
	eff := w.handlerEffects(r)
	paths, _ := w.extractPolicy(r)
	if paths == nil {
		return
	}
	r.Count("routes", len(routes))
	r.Count("policy_decision_paths", len(paths))
	roles := map[string]bool{}
	for _, p := range paths {
		roles[p.role] = true
	}
	var rs []string
	for k := range roles {
		rs = append(rs, k)
	}
	sort.Strings(rs)
	r.Notes = append(r.Notes, "roles the middleware can require: "+strings.Join(rs, ","))
	if roles["?"] {
		r.Und("WEB-3", "policy:unresolved-role", "", "a decision path hands HasAccess a role that is not a constant")
	}
	for _, rt := range routes {
		key := strings.TrimPrefix(rt.Method+"_"+rt.Pattern, "_")
		if rt.Handler == nil {
			r.Ok("WEB-1", "route:"+key, w.Pos(rt.Pos), "handler is a library handler (no engine access)")
			continue
		}
		r.Ok("WEB-1", "route:"+key, w.Pos(rt.Pos), "handler "+shortName(rt.Handler))
		if rt.Root {
			e := eff(rt.Handler)
			r.Cond(!e.mutating && !e.admin, "WEB-3", "unauthenticated:"+key, w.Pos(rt.Pos), "route outside the auth chain has no effects", "route "+key+" is registered on the outer mux (no authentication) but its handler mutates state or manages keys: "+e.via)
			continue
		}
		e := eff(rt.Handler)
		need := "read"
		if e.mutating {
			need = "write"
		}
		if e.admin {
			need = "admin"
		}
		methods := []string{rt.Method}
		if rt.Method == "" {
			methods = []string{"GET", "POST", "PUT", "DELETE"}
		}
		worst, worstWhy := weakestRole(paths, methods, rt.Pattern)
		ok := roleRank[worst] >= roleRank[need]
		why := ""
		if worstWhy != "" {
			why = " when the caller chooses the wildcard so that: " + worstWhy
		}
		r.Cond(ok, "WEB-3", "route:"+key, w.Pos(rt.Pos), fmt.Sprintf("effect %s, weakest role the policy can require: %s", need, worst),
			fmt.Sprintf("route %s needs the %s role (%s) but the middleware's decision procedure can settle for %s%s: a %s token performs it", key, need, e.via, worst, why, worst))
	}
}

// weakestRole: the lowest role the extracted decision procedure can settle for on a route, over the given methods and every
// instantiation of the pattern's wildcards; and the wildcard choices that get there.
func weakestRole(paths []policyPath, methods []string, pattern string) (string, string) {
	worst, worstWhy := "admin", ""
	for _, m := range methods {
		for _, p := range paths {
			feasible := true
			var chosen []string
			for _, l := range p.lits {
				v := evalAtom(l.a, m, pattern)
				if (v == triTrue && !l.truth) || (v == triFalse && l.truth) {
					feasible = false
					break
				}
				if v == triMaybe && l.a.kind != "opaque" && l.truth {
					chosen = append(chosen, l.a.kind+" "+l.a.arg)
				}
			}
			if !feasible {
				continue
			}
			if roleRank[p.role] < roleRank[worst] {
				worst = p.role
				worstWhy = strings.Join(chosen, ", ")
			}
		}
	}
	return worst, worstWhy
}

// ruleSIBroles: HasAccess handles every role the middleware can require.
func ruleSIBroles(w *World, r *Report) {
	r.Doc("SIB-roles", "every role constant the middleware can hand to HasAccess is one HasAccess has a denying test for (write and admin), and the admin bypass is the only path that skips the namespace test", 3)
	ha := w.Func("pkg/auth", "APIKeyPolicy.HasAccess")
	if ha == nil {
		r.Und("SIB-roles", "anchor:HasAccess", "", "anchor lost")
		return
	}
	fn := w.SSAFunc(ha.Obj)
	paths, _ := w.extractPolicy(r)
	required := map[string]bool{}
	for _, p := range paths {
		required[p.role] = true
	}
	// comparisons of the requiredRole parameter with constants that lead to `return false`
	var reqParam *ssa.Parameter
	for _, p := range fn.Params {
		if p.Name() == "requiredRole" {
			reqParam = p
		}
	}
	if reqParam == nil && len(fn.Params) >= 3 && isStringType(fn.Params[1].Type()) {
		reqParam = fn.Params[1] // (receiver, required role, target namespace): the role by position, whatever it is called
	}
	if reqParam == nil {
		r.Und("SIB-roles", "HasAccess:param", w.Pos(ha.Decl.Pos()), "no requiredRole parameter")
		return
	}
	denies := map[string]bool{}
	for _, ref := range *reqParam.Referrers() {
		bo, ok := ref.(*ssa.BinOp)
		if !ok || bo.Op != token.EQL {
			continue
		}
		s, ok := stringOf(bo.Y)
		if !ok {
			continue
		}
		t, _ := condEdges(bo)
		for _, e := range t {
			// from the true edge a `return false` must be reachable without a `return true` first
			found, _ := (pathQuery{fn: fn, target: func(in ssa.Instruction) bool {
				rt, ok := in.(*ssa.Return)
				if !ok {
					return false
				}
				c, ok := retVal(rt, 0).(*ssa.Const)
				return ok && c.Value != nil && !constant.BoolVal(c.Value)
			}}).find(ipos{e.from.Succs[e.succ], -1})
			if found {
				denies[s] = true
			}
		}
	}
	for role := range required {
		if role == "read" || role == "?" {
			continue
		}
		r.Cond(denies[role], "SIB-roles", "HasAccess:denies:"+role, w.Pos(ha.Decl.Pos()), "HasAccess has a denying test for required role "+role,
			"the middleware can require the role \""+role+"\" but HasAccess never tests for it: the request falls through to the namespace test, so any token whose namespaces match (for example \"*\") is accepted on "+role+"-only routes")
	}
	r.Ok("SIB-roles", "roles-required-by-middleware", "", fmt.Sprint(len(required))+" role constants reach HasAccess")
	// every way to answer "true" lies behind the admin bypass (a test of the POLICY's own role) or behind a successful
	// comparison with one of the policy's namespaces: nothing about the request alone (its namespace being "*", its
	// required role being read) may grant access — the middleware hands over "*" exactly when it could not determine
	// the namespace and relies on HasAccess to refuse non-global keys then
	recvField := func(v ssa.Value, field string) bool {
		ld, ok := v.(*ssa.UnOp)
		if !ok || ld.Op != token.MUL {
			return false
		}
		fa, ok := ld.X.(*ssa.FieldAddr)
		if !ok || len(fn.Params) == 0 || fa.X != ssa.Value(fn.Params[0]) {
			return false
		}
		_, f := structFieldName(fa.X.Type(), fa.Field)
		return f == field
	}
	nsElem := func(v ssa.Value) bool {
		for _, leaf := range valueRoots(v) {
			ld, ok := leaf.(*ssa.UnOp)
			if !ok || ld.Op != token.MUL {
				continue
			}
			if ia, ok := ld.X.(*ssa.IndexAddr); ok && recvField(ia.X, "Namespaces") {
				return true
			}
		}
		return false
	}
	// membership of something in the policy's own namespace list, asked of the library: slices.Contains(p.Namespaces, x)
	isNsContains := func(in ssa.Instruction) bool {
		c, ok := in.(*ssa.Call)
		if !ok || len(c.Call.Args) != 2 {
			return false
		}
		g := c.Call.StaticCallee()
		if g == nil {
			return false
		}
		o := g
		if g.Origin() != nil {
			o = g.Origin()
		}
		return o.Pkg != nil && o.Pkg.Pkg.Path() == "slices" && o.Name() == "Contains" && recvField(c.Call.Args[0], "Namespaces")
	}
	isGrantGuard := func(in ssa.Instruction) bool {
		if isNsContains(in) {
			return true
		}
		bo, ok := in.(*ssa.BinOp)
		if !ok || bo.Op != token.EQL {
			return false
		}
		if recvField(bo.X, "Role") || recvField(bo.Y, "Role") {
			if sv, ok := stringOf(bo.Y); ok && sv == "admin" {
				return true
			}
			if sv, ok := stringOf(bo.X); ok && sv == "admin" {
				return true
			}
			return false
		}
		return nsElem(bo.X) || nsElem(bo.Y)
	}
	var grants []ssa.Instruction
	for _, b := range fn.Blocks {
		rt, ok := b.Instrs[len(b.Instrs)-1].(*ssa.Return)
		if !ok || len(rt.Results) != 1 {
			continue
		}
		var visit func(v ssa.Value, at ssa.Instruction, seen map[ssa.Value]bool)
		visit = func(v ssa.Value, at ssa.Instruction, seen map[ssa.Value]bool) {
			if seen[v] {
				return
			}
			seen[v] = true
			switch x := v.(type) {
			case *ssa.Const:
				if x.Value != nil && x.Value.Kind() == constant.Bool && constant.BoolVal(x.Value) {
					grants = append(grants, at)
				}
			case *ssa.Phi:
				for i, e := range x.Edges {
					p := x.Block().Preds[i]
					// `a || b` with a a grant guard: the constant true arrives over the guard's own true edge
					if iff, isIf := p.Instrs[len(p.Instrs)-1].(*ssa.If); isIf && len(p.Succs) == 2 && p.Succs[0] == x.Block() && p.Succs[1] != x.Block() {
						if ci, isI := iff.Cond.(ssa.Instruction); isI && isGrantGuard(ci) {
							if c, isC := e.(*ssa.Const); isC && c.Value != nil && c.Value.Kind() == constant.Bool && constant.BoolVal(c.Value) {
								continue
							}
						}
					}
					visit(e, p.Instrs[len(p.Instrs)-1], seen)
				}
			default:
				if ci, isI := v.(ssa.Instruction); isI && isNsContains(ci) {
					return // the answer IS the membership test: true only when the policy lists the namespace
				}
				grants = append(grants, at) // a computed answer: must lie behind a grant guard as well
			}
		}
		visit(retVal(rt, 0), rt, map[ssa.Value]bool{})
	}
	for i, g := range grants {
		gg := g
		ok, wit := mustPassGuard(fn, func(in ssa.Instruction) bool { return in == gg }, isGrantGuard, func(in ssa.Instruction) ssa.Value { return in.(ssa.Value) }, true, nil)
		if len(findInstrs(fn, isGrantGuard)) == 0 {
			ok = false
		}
		r.Cond(ok, "SIB-roles", fmt.Sprintf("HasAccess:grant#%d:behind-admin-or-namespace-match", i+1), w.Pos(g.Pos()), "this way of answering true lies behind the admin bypass or a successful comparison with one of the policy's namespaces", "HasAccess can answer true on a path that passed neither the policy-is-admin test nor a successful comparison with one of the policy's namespaces: access is granted on a property of the request alone (for instance target namespace \"*\" with a read requirement), and the middleware passes \"*\" exactly when it could not determine the namespace — a key restricted to one namespace reads what it must not", w.witness(wit)...)
	}
	if len(grants) == 0 && len(findInstrs(fn, isNsContains)) > 0 {
		r.Ok("SIB-roles", "HasAccess:grant#1:behind-admin-or-namespace-match", w.Pos(ha.Decl.Pos()), "every way of answering true is a membership test against the policy's own namespace list")
	} else if len(grants) == 0 {
		r.Und("SIB-roles", "HasAccess:grants", w.Pos(ha.Decl.Pos()), "cannot find how HasAccess answers true")
	}
}

// ruleWEBauth: every path of the auth closure to next.ServeHTTP passed the root-token equality, or a successful
// VerifyToken and (admin policy or HasAccess == true); VerifyToken pins the signing method and honours the deny list.
func ruleWEBauth(w *World, r *Report) {
	r.Doc("WEB-auth", "with a token configured, the request reaches the inner handler only after the root-token equality, or after VerifyToken succeeded and (the policy is admin or HasAccess returned true); VerifyToken accepts only ECDSA-signed tokens, requires parsed.Valid and consults the revocation list before returning a policy", 6)
	_, fn := w.extractPolicy(r)
	if fn == nil {
		return
	}
	ha := w.FuncObj("pkg/auth", "APIKeyPolicy.HasAccess")
	serve := func(in ssa.Instruction) bool {
		c, ok := in.(*ssa.Call)
		return ok && c.Call.IsInvoke() && c.Call.Method.Name() == "ServeHTTP"
	}
	verify := func(in ssa.Instruction) bool {
		c, ok := in.(*ssa.Call)
		return ok && c.Call.IsInvoke() && c.Call.Method.Name() == "VerifyToken"
	}
	// the open-server and root-token bypass edges
	bypass := map[edgeKey]bool{}
	nRoot := 0
	for _, b := range fn.Blocks {
		for _, in := range b.Instrs {
			bo, ok := in.(*ssa.BinOp)
			if !ok || bo.Op != token.EQL {
				continue
			}
			isTok := func(v ssa.Value) bool { return isFieldLoad(v, "authToken") }
			if isTok(bo.X) || isTok(bo.Y) {
				t, _ := condEdges(bo)
				for _, e := range t {
					bypass[e] = true
				}
				nRoot++
			}
		}
	}
	r.Cond(nRoot == 2, "WEB-auth", "middleware:bypass-tests", w.Pos(fn.Pos()), "exactly two bypass tests: no token configured, and equality with the root token", fmt.Sprintf("the middleware has %d comparisons with the configured token (expected: `authToken == \"\"` and `token == authToken`): a new bypass was added or one was removed", nRoot))
	// with the bypass edges blocked: serve only after VerifyToken success
	vcalls := findInstrs(fn, verify)
	if len(vcalls) == 0 {
		r.Bad("WEB-auth", "middleware:verify", w.Pos(fn.Pos()), "the middleware no longer calls VerifyToken")
		return
	}
	blocked := mergeEdges(bypass)
	found, wit := (pathQuery{fn: fn, target: serve, avoid: verify, blocked: blocked}).find(entryPos(fn))
	r.Cond(!found, "WEB-auth", "middleware:serve-needs-verify", w.Pos(fn.Pos()), "inner handler reachable only after VerifyToken", "a request can reach the inner handler without VerifyToken (and without the root token)", w.witness(wit)...)
	for _, vc := range vcalls {
		fail := failureEdges(fn, vc.(*ssa.Call))
		for e := range fail {
			f2, w2 := (pathQuery{fn: fn, target: serve, blocked: blocked}).find(ipos{e.from.Succs[e.succ], -1})
			r.Cond(!f2, "WEB-auth", "middleware:verify-failure-is-rejected", w.Pos(vc.Pos()), "a failed verification never reaches the inner handler", "after VerifyToken FAILED the request can still reach the inner handler", w.witness(w2)...)
		}
	}
	// HasAccess == true or admin role
	adminEdges := map[edgeKey]bool{}
	for _, b := range fn.Blocks {
		for _, in := range b.Instrs {
			bo, ok := in.(*ssa.BinOp)
			if !ok || (bo.Op != token.NEQ && bo.Op != token.EQL) {
				continue
			}
			if s, ok := stringOf(bo.Y); ok && s == "admin" && isFieldLoad(bo.X, "Role") {
				t, f := condEdges(bo)
				eq := t
				if bo.Op == token.NEQ {
					eq = f
				}
				for _, e := range eq {
					adminEdges[e] = true
				}
			}
		}
	}
	adminEdgesOf := func(f *ssa.Function) map[edgeKey]bool {
		out := map[edgeKey]bool{}
		for _, b := range f.Blocks {
			for _, in := range b.Instrs {
				bo, ok := in.(*ssa.BinOp)
				if !ok || (bo.Op != token.NEQ && bo.Op != token.EQL) {
					continue
				}
				if s, ok := stringOf(bo.Y); ok && s == "admin" && isFieldLoad(bo.X, "Role") {
					t, f := condEdges(bo)
					eq := t
					if bo.Op == token.NEQ {
						eq = f
					}
					for _, e := range eq {
						out[e] = true
					}
				}
			}
		}
		return out
	}
	// the namespace loop runs at least once when the extraction never returns an empty list (checked below)
	ok, wit2 := mustPassGuard2(fn, serve, callsTo(ha), callValue, true, mergeEdges(bypass, adminEdges), zeroIterEdges(fn, callsTo(ha)))
	if !ok && len(findInstrs(fn, callsTo(ha))) == 0 {
		// the per-namespace check is a function of its own that reports (namespace, denied): inside it "not denied" is
		// returned only after HasAccess said yes for every namespace (or for an admin policy), and the closure serves only
		// on its "not denied" answer
		for _, in := range findInstrs(fn, func(in ssa.Instruction) bool { _, isC := in.(*ssa.Call); return isC }) {
			c := in.(*ssa.Call)
			h := c.Call.StaticCallee()
			if h == nil || h.Pkg != fn.Pkg || len(findInstrs(h, callsTo(ha))) == 0 {
				continue
			}
			bi := -1
			for i := 0; i < h.Signature.Results().Len(); i++ {
				if isBoolType(h.Signature.Results().At(i).Type()) {
					bi = i
				}
			}
			if bi < 0 {
				continue
			}
			// the answer given when HasAccess says no
			var denied *bool
			consistent := true
			for _, hc := range findInstrs(h, callsTo(ha)) {
				_, fe := condEdges(hc.(*ssa.Call))
				for _, e := range fe {
					for _, b := range h.Blocks {
						rt, isRet := b.Instrs[len(b.Instrs)-1].(*ssa.Return)
						if !isRet || len(rt.Results) <= bi {
							continue
						}
						// reached without another HasAccess in between
						if reach, _ := (pathQuery{fn: h, target: func(x ssa.Instruction) bool { return x == ssa.Instruction(rt) }, avoid: callsTo(ha)}).find(ipos{e.from.Succs[e.succ], -1}); !reach {
							continue
						}
						k, isK := retVal(rt, bi).(*ssa.Const)
						if !isK || k.Value == nil {
							consistent = false
							continue
						}
						v := constant.BoolVal(k.Value)
						if denied != nil && *denied != v {
							consistent = false
						}
						denied = &v
					}
				}
			}
			if denied == nil || !consistent {
				continue
			}
			granted := func(x ssa.Instruction) bool {
				rt, isRet := x.(*ssa.Return)
				if !isRet || len(rt.Results) <= bi {
					return false
				}
				k, isK := retVal(rt, bi).(*ssa.Const)
				return !isK || k.Value == nil || constant.BoolVal(k.Value) != *denied
			}
			inner, w1 := mustPassGuard2(h, granted, callsTo(ha), callValue, true, adminEdgesOf(h), zeroIterEdges(h, callsTo(ha)))
			cc := c
			outer, w2 := mustPassGuard(fn, serve, func(x ssa.Instruction) bool { return x == ssa.Instruction(cc) }, func(x ssa.Instruction) ssa.Value {
				for _, ref := range *cc.Referrers() {
					if ex, isEx := ref.(*ssa.Extract); isEx && ex.Index == bi {
						return ex
					}
				}
				if h.Signature.Results().Len() == 1 {
					return cc
				}
				return nil
			}, !*denied, mergeEdges(bypass, adminEdges))
			if inner && outer {
				ok, wit2 = true, nil
			} else {
				wit2 = append(w1, w2...)
			}
		}
	}
	if ex := w.Func("internal/server", "extractNamespacesFromRequest"); ex != nil {
		efn := w.SSAFunc(ex.Obj)
		nonEmpty := true
		for _, b := range efn.Blocks {
			rt, isRt := b.Instrs[len(b.Instrs)-1].(*ssa.Return)
			if !isRt || len(rt.Results) != 1 {
				continue
			}
			v := retVal(rt, 0)
			okv := false
			if sl, isSl := v.(*ssa.Slice); isSl {
				if al, isAl := sl.X.(*ssa.Alloc); isAl {
					if pt, ok := al.Type().Underlying().(*types.Pointer); ok {
						if at, ok := pt.Elem().Underlying().(*types.Array); ok && at.Len() >= 1 {
							okv = true
						}
					}
				}
			}
			if !okv {
				// a variable returned under `len(v) > 0`
				for d := b; d != nil; d = d.Idom() {
					p := d.Idom()
					if p == nil {
						break
					}
					if iff, ok := p.Instrs[len(p.Instrs)-1].(*ssa.If); ok && len(d.Preds) == 1 {
						// the edge into d says "the list has at least one element", in any spelling of that test
						if bo, ok := iff.Cond.(*ssa.BinOp); ok {
							if lc, isCall := bo.X.(*ssa.Call); isCall {
								if bi, isB := lc.Call.Value.(*ssa.Builtin); isB && bi.Name() == "len" {
									if c, ok := constInt(bo.Y); ok {
										onTrue := (bo.Op == token.GTR && c == 0) || (bo.Op == token.GEQ && c == 1) || (bo.Op == token.NEQ && c == 0)
										onFalse := (bo.Op == token.EQL && c == 0) || (bo.Op == token.LSS && c == 1) || (bo.Op == token.LEQ && c == 0)
										if (onTrue && p.Succs[0] == d) || (onFalse && p.Succs[1] == d) {
											okv = true
										}
									}
								}
							}
						}
					}
				}
			}
			if !okv {
				nonEmpty = false
			}
		}
		r.Cond(nonEmpty, "WEB-auth", "extractNamespaces:never-empty", w.Pos(ex.Decl.Pos()), "every return yields at least one namespace (\"*\" when nothing can be determined)", "the namespace extraction can return an empty list: the middleware's per-namespace loop then checks nothing and lets the request through")
	}
	r.Cond(ok, "WEB-auth", "middleware:serve-needs-HasAccess", w.Pos(fn.Pos()), "non-admin policies reach the handler only through HasAccess == true", "a non-admin policy can reach the inner handler without HasAccess returning true", w.witness(wit2)...)
	// VerifyToken
	vt := w.Func("pkg/auth", "JWTProvider.VerifyToken")
	if vt == nil {
		r.Und("WEB-auth", "anchor:JWTProvider.VerifyToken", "", "anchor lost")
		return
	}
	vfn := w.SSAFunc(vt.Obj)
	all := append([]*ssa.Function{vfn}, closuresOf(vfn)...)
	ecdsa, valid, deny := false, false, false
	for _, f := range all {
		for _, b := range f.Blocks {
			for _, in := range b.Instrs {
				switch x := in.(type) {
				case *ssa.TypeAssert:
					if strings.Contains(x.AssertedType.String(), "SigningMethodECDSA") {
						ecdsa = true
					}
				case *ssa.FieldAddr:
					if fieldName(x) == "Valid" {
						valid = true
					}
				case *ssa.Call:
					if x.Call.IsInvoke() && x.Call.Method.Name() == "Get" {
						for _, a := range x.Call.Args {
							if bo, ok := a.(*ssa.BinOp); ok && bo.Op == token.ADD {
								if s, ok := stringOf(bo.X); ok && strings.Contains(s, "revoked") {
									deny = true
								}
							}
						}
					}
				}
			}
		}
	}
	r.Cond(ecdsa, "WEB-auth", "VerifyToken:pins-ECDSA", w.Pos(vt.Decl.Pos()), "key function rejects non-ECDSA signing methods", "VerifyToken's key function no longer checks that the token is ECDSA-signed: an attacker-chosen alg (none / HS256 with the public key) is accepted")
	r.Cond(valid, "WEB-auth", "VerifyToken:checks-Valid", w.Pos(vt.Decl.Pos()), "parsed.Valid is consulted", "VerifyToken no longer consults parsed.Valid")
	r.Cond(deny, "WEB-auth", "VerifyToken:consults-deny-list", w.Pos(vt.Decl.Pos()), "revocation markers are looked up", "VerifyToken no longer looks up the revocation marker: revoked tokens keep working")
	// the success return is dominated by the deny-list lookup
	if deny {
		getCall := func(in ssa.Instruction) bool {
			c, ok := in.(*ssa.Call)
			return ok && c.Call.IsInvoke() && c.Call.Method.Name() == "Get"
		}
		okret := func(in ssa.Instruction) bool {
			rt, ok := in.(*ssa.Return)
			return ok && len(rt.Results) == 2 && isNilConst(retVal(rt, 1))
		}
		found, wit := (pathQuery{fn: vfn, target: okret, avoid: getCall}).find(entryPos(vfn))
		r.Cond(!found, "WEB-auth", "VerifyToken:success-after-deny-list", w.Pos(vt.Decl.Pos()), "a policy is returned only after the revocation lookup", "VerifyToken can return a policy on a path that skips the revocation lookup (for example a cache hit)", w.witness(wit)...)
		// … and after the parse (expiry / signature) on every path
		parse := func(in ssa.Instruction) bool {
			c, ok := in.(*ssa.Call)
			if !ok {
				return false
			}
			o := calleeObj(&c.Call)
			return o != nil && o.Pkg() != nil && strings.Contains(o.Pkg().Path(), "golang-jwt") && strings.HasPrefix(o.Name(), "Parse")
		}
		found, wit = (pathQuery{fn: vfn, target: okret, avoid: parse}).find(entryPos(vfn))
		r.Cond(!found, "WEB-auth", "VerifyToken:success-after-parse", w.Pos(vt.Decl.Pos()), "a policy is returned only after the token was parsed and validated in this call", "VerifyToken can return a policy without parsing/validating the token in this call (a cache of earlier verdicts): signature, nbf and exp are not re-checked, so an expired token keeps working", w.witness(wit)...)
	}
}

// ---------- WEB-4: namespace provenance ----------

func ruleWEB4(w *World, r *Report) {
	r.Doc("WEB-4", "the namespace the middleware authorises is taken from the same request location the handler takes its index from: path segment 3 under /vector/indexes/, else the body field index_name of a POST; the middleware consults no other location (a decoy), and handlers address indexes through no other location", 30)
	ex := w.Func("internal/server", "extractNamespacesFromRequest")
	if ex == nil {
		ex = w.Func("internal/server", "extractNamespaceFromRequest")
	}
	if ex == nil {
		r.Und("WEB-4", "anchor:extractNamespacesFromRequest", "", "anchor lost: the middleware's namespace extraction")
		return
	}
	// middleware side: which request locations does it read?
	efn := w.SSAFunc(ex.Obj)
	locs := map[string]bool{}
	for _, b := range efn.Blocks {
		for _, in := range b.Instrs {
			switch x := in.(type) {
			case *ssa.FieldAddr:
				switch fieldName(x) {
				case "Path":
					locs["path"] = true
				case "Body":
					locs["body"] = true
				case "RawQuery", "Form", "PostForm", "Header":
					locs[strings.ToLower(fieldName(x))] = true
				}
			case *ssa.Call:
				if o := calleeObj(&x.Call); o != nil && o.Pkg() != nil && (o.Pkg().Path() == "net/url" || o.Pkg().Path() == "net/http") {
					switch shortName(o) {
					case "URL.Query", "Request.FormValue", "Request.PostFormValue", "Values.Get", "Header.Get", "Request.PathValue":
						locs[shortName(o)] = true
					}
				}
			}
		}
	}
	var extra []string
	for l := range locs {
		if l != "path" && l != "body" {
			extra = append(extra, l)
		}
	}
	sort.Strings(extra)
	r.Cond(len(extra) == 0 && locs["path"] && locs["body"], "WEB-4", "middleware:namespace-locations", w.Pos(ex.Decl.Pos()), "namespace is read from the path and the JSON body only",
		"the middleware derives the namespace from "+strings.Join(extra, ", ")+", a location the handlers do not address indexes through: a token restricted to tenant A sends the decoy there and names tenant B where the handler looks")
	// body field name
	bodyFields := map[string]bool{}
	// (decoding the buffered body may be a function of its own, handed the request path)
	exHelpers := w.extractedHelpers(efn)
	for _, f := range append([]*ssa.Function{efn}, exHelpers...) {
		for _, in := range findInstrs(f, func(in ssa.Instruction) bool { _, isC := in.(*ssa.Call); return isC }) {
			c := in.(*ssa.Call)
			if g := c.Call.StaticCallee(); g != nil && g.Pkg == efn.Pkg && len(c.Call.Args) == len(g.Params) {
				for i, a := range c.Call.Args {
					switch {
					case isReqField(a, "Method"):
						reqParamField[g.Params[i]] = "Method"
					case isReqField(a, "Path"):
						reqParamField[g.Params[i]] = "Path"
					}
				}
			}
		}
	}
	for _, exd := range append([]*FuncInfo{ex}, w.helperDecls(ex)...) {
		exInfo := exd.Pkg.TypesInfo
		ast.Inspect(exd.Decl.Body, func(n ast.Node) bool {
			se, ok := n.(*ast.SelectorExpr)
			if !ok {
				return true
			}
			if sel := exInfo.Selections[se]; sel != nil {
				if v, ok := sel.Obj().(*types.Var); ok && v.IsField() {
					if st, ok := derefStruct(sel.Recv()); ok {
						for i := 0; i < st.NumFields(); i++ {
							if st.Field(i) == v {
								if t := reflectTag(st.Tag(i), "json"); t != "" {
									bodyFields[t] = true // a decoded body field the extraction actually reads
								}
							}
						}
					}
				}
			}
			return true
		})
	}
	// an alternative namespace field (anything but index_name) counts only on routes whose handler reads it. The extraction
	// returns the fields that are PRESENT: a field honoured on a route whose handler does not know it is a decoy — the
	// token names its own namespace there, omits index_name, and the handler falls back to its default index.
	{
		routePaths := func(field string) (paths []string, everywhere bool) {
			everywhere = true
			var blocks []*ssa.BasicBlock
			for _, f := range append([]*ssa.Function{efn}, exHelpers...) {
				blocks = append(blocks, f.Blocks...)
			}
			for _, b := range blocks {
				for _, in := range b.Instrs {
					fa, ok := in.(*ssa.FieldAddr)
					if !ok {
						continue
					}
					st, ok := derefStruct(fa.X.Type())
					if !ok || reflectTag(st.Tag(fa.Field), "json") != field {
						continue
					}
					// dominated by the true edge of a test of the request path against a constant?
					guarded := false
					for d := b; d != nil; d = d.Idom() {
						id := d.Idom()
						if id == nil {
							break
						}
						iff, ok := id.Instrs[len(id.Instrs)-1].(*ssa.If)
						if !ok {
							continue
						}
						a, neg, okA := condAtom(iff.Cond)
						if !okA || (a.kind != "path==" && a.kind != "prefix") {
							continue
						}
						onEdge := id.Succs[0]
						if neg {
							onEdge = id.Succs[1]
						}
						if onEdge == d && len(d.Preds) == 1 {
							guarded = true
							paths = append(paths, a.arg)
						}
					}
					if !guarded {
						return nil, true
					}
					everywhere = false
				}
			}
			return paths, everywhere
		}
		var alts []string
		for f := range bodyFields {
			if f != "index_name" {
				alts = append(alts, f)
			}
		}
		sort.Strings(alts)
		for _, f := range alts {
			paths, everywhere := routePaths(f)
			var missing []string
			for _, rt := range w.routes(r, "WEB-4") {
				if rt.Handler == nil || rt.Root || rt.Method != "POST" {
					continue
				}
				honoured := everywhere
				for _, p := range paths {
					if rt.Pattern == p || strings.HasPrefix(rt.Pattern, p) {
						honoured = true
					}
				}
				if !honoured {
					continue
				}
				hf := w.SSAFunc(rt.Handler)
				if hf == nil || !decodesBodyField(hf, f) {
					missing = append(missing, rt.Pattern)
				}
			}
			sort.Strings(missing)
			show := missing
			if len(show) > 6 {
				show = append(append([]string{}, show[:6]...), fmt.Sprintf("… (%d routes)", len(missing)))
			}
			r.Cond(len(missing) == 0, "WEB-4", "middleware:alternative-field:"+f+":honoured-only-where-a-handler-reads-it", w.Pos(ex.Decl.Pos()), "the field is honoured only on routes whose handler decodes it",
				"the middleware accepts the body field "+f+" as the namespace of a request on routes whose handler does not read it ("+strings.Join(show, ", ")+"): a token restricted to namespace A sends "+f+"=A, omits index_name, and a handler that falls back to a default index (POST /compile: mcp_memory) runs on an index the token was never checked against")
		}
	}
	r.Cond(bodyFields["index_name"], "WEB-4", "middleware:body-field", w.Pos(ex.Decl.Pos()), "body namespace field index_name is read", "the middleware no longer reads the body field index_name")
	// every extracted namespace is checked: the middleware loops over the result (or the result is a single string)
	if mw := w.Func("internal/server", "Server.authMiddleware"); mw != nil {
		ha := w.FuncObj("pkg/auth", "APIKeyPolicy.HasAccess")
		okAll := false
		scope := closuresOf(w.SSAFunc(mw.Obj))
		for _, cf := range closuresOf(w.SSAFunc(mw.Obj)) { // (the per-namespace check may be a function of its own)
			for _, in := range findInstrs(cf, func(in ssa.Instruction) bool { _, isC := in.(*ssa.Call); return isC }) {
				if h := in.(*ssa.Call).Call.StaticCallee(); h != nil && h.Pkg == cf.Pkg && len(findInstrs(h, callsTo(ha))) > 0 {
					scope = append(scope, h)
				}
			}
		}
		for _, cf := range scope {
			for _, in := range findInstrs(cf, callsTo(ha)) {
				c := in.(*ssa.Call)
				// namespace argument derives from an element of the extraction's result (range) or from its string result
				switch v := c.Call.Args[2].(type) {
				case *ssa.UnOp:
					if _, ok := v.X.(*ssa.IndexAddr); ok && loopHeader(in.Block()) != nil {
						okAll = true
					}
				case *ssa.Call:
					if calleeObj(&v.Call) == ex.Obj {
						okAll = true
					}
				case *ssa.Extract:
					okAll = true
				}
			}
		}
		r.Cond(okAll, "WEB-4", "middleware:checks-every-namespace", w.Pos(mw.Decl.Pos()), "HasAccess is evaluated for every namespace the extraction returns", "the middleware checks only part of the namespaces it extracts from the request")
	}
	// handler side
	routes := w.routes(r, "WEB-4")
	p := w.Pkg("internal/server")
	info := p.TypesInfo
	seen := map[*types.Func]bool{}
	for _, rt := range routes {
		if rt.Handler == nil || rt.Root || seen[rt.Handler] {
			continue
		}
		seen[rt.Handler] = true
		fi := w.Decl(rt.Handler)
		if fi == nil || fi.Decl.Body == nil {
			continue
		}
		underIndexes := strings.HasPrefix(rt.Pattern, "/vector/indexes/{")
		// every engine/DB call with an index-name parameter: where does the argument come from?
		ast.Inspect(fi.Decl.Body, func(n ast.Node) bool {
			call, ok := n.(*ast.CallExpr)
			if !ok {
				return true
			}
			callee := typeutil.StaticCallee(info, call)
			if callee == nil || !(relPkg(callee) == "pkg/engine" || relPkg(callee) == "pkg/core") {
				return true
			}
			sig := callee.Type().(*types.Signature)
			for i := 0; i < sig.Params().Len() && i < len(call.Args); i++ {
				pn := strings.ToLower(sig.Params().At(i).Name())
				if !(pn == "indexname" || pn == "index" || pn == "idxname" || pn == "name" || pn == "sourceindex" || pn == "targetindex") {
					continue
				}
				src := argSource(info, fi.Decl.Body, call.Args[i], 0)
				key := fmt.Sprintf("%s:%s(%s)", shortName(rt.Handler), callee.Name(), src)
				ok := false
				adminOnly := strings.HasPrefix(rt.Pattern, "/system/") || strings.HasPrefix(rt.Pattern, "/auth/")
				switch {
				case strings.HasPrefix(src, "body:") && bodyFields[strings.TrimPrefix(src, "body:")] && rt.Method == "POST":
					ok = true
				case src == "path:name" && underIndexes:
					ok = true
				case strings.HasPrefix(src, "const:"):
					ok = true
				case adminOnly:
					ok = true // only admin policies get here; they are not namespace-restricted
				case !underIndexes && rt.Method != "POST":
					// the middleware can extract nothing on this route and falls back to "*":
					// namespace-restricted tokens are refused outright, only global tokens pass
					ok = true
				}
				if why, exempt := web4Exceptions[shortName(rt.Handler)+":"+src]; exempt {
					r.Ok("WEB-4", key, w.Pos(call.Pos()), "exception: "+why)
					r.Except(shortName(rt.Handler) + ":" + src + ": " + why)
					continue
				}
				r.Cond(ok, "WEB-4", key, w.Pos(call.Pos()), "index comes from the location the middleware authorises",
					fmt.Sprintf("%s (%s %s) addresses an index taken from %s, which the middleware's namespace check does not look at: a token restricted to other namespaces reads or modifies this index", shortName(rt.Handler), rt.Method, rt.Pattern, src))
			}
			return true
		})
	}
}

var web4Exceptions = map[string]string{}

// argSource classifies where a handler's index-name argument comes from.
func argSource(info *types.Info, body *ast.BlockStmt, e ast.Expr, depth int) string {
	if depth > 6 {
		return "unknown"
	}
	e = ast.Unparen(e)
	if tv := info.Types[e]; tv.Value != nil && tv.Value.Kind() == constant.String {
		return "const:" + constant.StringVal(tv.Value)
	}
	switch x := e.(type) {
	case *ast.SelectorExpr:
		// req.IndexName: tag of the struct field
		if sel := info.Selections[x]; sel != nil {
			if v, ok := sel.Obj().(*types.Var); ok && v.IsField() {
				if st, ok := derefStruct(sel.Recv()); ok {
					for i := 0; i < st.NumFields(); i++ {
						if st.Field(i) == v {
							tag := reflectTag(st.Tag(i), "json")
							if tag != "" {
								return "body:" + tag
							}
							return "field:" + v.Name()
						}
					}
				}
				return "field:" + v.Name()
			}
		}
	case *ast.CallExpr:
		if sel, ok := x.Fun.(*ast.SelectorExpr); ok {
			switch sel.Sel.Name {
			case "PathValue":
				if len(x.Args) == 1 {
					if tv := info.Types[x.Args[0]]; tv.Value != nil {
						return "path:" + constant.StringVal(tv.Value)
					}
				}
			case "Get":
				if len(x.Args) == 1 {
					if tv := info.Types[x.Args[0]]; tv.Value != nil {
						return "query:" + constant.StringVal(tv.Value)
					}
				}
			case "FormValue":
				return "form"
			}
		}
	case *ast.Ident:
		obj := info.Uses[x]
		if obj == nil {
			return "unknown"
		}
		// find the (single) defining assignment in the handler
		var src string
		ast.Inspect(body, func(n ast.Node) bool {
			as, ok := n.(*ast.AssignStmt)
			if !ok {
				return true
			}
			for i, l := range as.Lhs {
				if id, ok := l.(*ast.Ident); ok && (info.Defs[id] == obj || info.Uses[id] == obj) && i < len(as.Rhs) {
					s := argSource(info, body, as.Rhs[i], depth+1)
					if src == "" || src == s {
						src = s
					} else {
						src = src + "|" + s
					}
				}
			}
			return true
		})
		if src != "" {
			return src
		}
		if v, ok := obj.(*types.Var); ok {
			return "var:" + v.Name()
		}
	}
	return "expr:" + types.ExprString(e)
}

func derefStruct(t types.Type) (*types.Struct, bool) {
	if p, ok := t.(*types.Pointer); ok {
		t = p.Elem()
	}
	st, ok := t.Underlying().(*types.Struct)
	return st, ok
}

func reflectTag(tag, key string) string {
	// minimal struct-tag lookup
	for tag != "" {
		i := strings.Index(tag, key+`:"`)
		if i < 0 {
			return ""
		}
		rest := tag[i+len(key)+2:]
		j := strings.IndexByte(rest, '"')
		if j < 0 {
			return ""
		}
		v := rest[:j]
		if k := strings.IndexByte(v, ','); k >= 0 {
			v = v[:k]
		}
		return v
	}
	return ""
}

// ---------- WEB-9: the data plane cannot reach the server's own records in the KV store ----------

// ruleWEB9: the token signing key, the revocation list and the API-key policies are stored in the same key-value
// store as user data, under the prefix auth.ReservedKVPrefix. Every API-layer function (HTTP handlers, MCP tools)
// that hands a request-derived key to Engine.KVGet/KVSet/KVDelete must have passed the reserved-key test first.
func ruleWEB9(w *World, r *Report) {
	r.Doc("WEB-9", "in the API layers (internal/server, internal/mcp) every call of Engine.KVGet/KVSet/KVDelete with a non-constant key is reached only on the not-reserved edge of auth.IsReservedKey; the auth layer's own adapter is the one exception", 6)
	guard := w.FuncObj("pkg/auth", "IsReservedKey")
	if guard == nil {
		r.Bad("WEB-9", "anchor:auth.IsReservedKey", "", "there is no reserved-key test: the KV routes hand any key to the engine, including _sys_auth::ecdsa_private_key (the token signing key — a read-role token can fetch it and sign its own admin tokens), the revocation list and the API-key policies")
		return
	}
	kv := map[*types.Func]bool{}
	for _, n := range []string{"Engine.KVGet", "Engine.KVSet", "Engine.KVDelete"} {
		if o := w.FuncObj("pkg/engine", n); o != nil {
			kv[o] = true
		}
	}
	exceptions := map[string]string{
		"journaledKV": "the auth layer's own store adapter (pkg/auth reads and writes its records through it; it is not reachable from a request path with a request-chosen key)",
	}
	n := 0
	for _, fi := range w.ModuleFuncs() {
		rp := relPkg(fi.Obj)
		if rp != "internal/server" && rp != "internal/mcp" {
			continue
		}
		root := w.SSAFunc(fi.Obj)
		if root == nil {
			continue
		}
		if sig, _ := fi.Obj.Type().(*types.Signature); sig != nil && sig.Recv() != nil {
			if why, ok := exceptions[typeLabelShort(sig.Recv().Type())]; ok {
				r.Except(shortName(fi.Obj) + ": " + why)
				continue
			}
		}
		for _, f := range append([]*ssa.Function{root}, closuresOf(root)...) {
			k := 0
			for _, in := range findInstrs(f, func(in ssa.Instruction) bool {
				c, ok := in.(*ssa.Call)
				if !ok {
					return false
				}
				o := calleeObj(&c.Call)
				return o != nil && kv[o]
			}) {
				c := in.(*ssa.Call)
				if _, isConst := c.Call.Args[1].(*ssa.Const); isConst {
					continue
				}
				n++
				k++
				cc := in
				ok, wit := mustPassGuard(f, func(x ssa.Instruction) bool { return x == cc }, callsTo(guard), callValue, false, nil)
				if len(findInstrs(f, callsTo(guard))) == 0 {
					ok = false
				}
				r.Cond(ok, "WEB-9", fmt.Sprintf("%s:%s#%d:behind-reserved-key-test", shortName(fi.Obj), calleeObj(&c.Call).Name(), k), w.Pos(c.Pos()), "reached only when the key is not one of the server's own records", shortName(fi.Obj)+" hands a request-chosen key to "+calleeObj(&c.Call).Name()+" without the reserved-key test: a token with the global namespace reads the token signing key (and signs its own admin tokens), overwrites it, or deletes a revocation entry through the data-plane KV API", w.witness(wit)...)
			}
		}
	}
	if n == 0 {
		r.Und("WEB-9", "anchor:kv-api", "", "no KV access with a request-chosen key found in the API layers")
	}
}

func typeLabelShort(t types.Type) string {
	if p, ok := t.(*types.Pointer); ok {
		t = p.Elem()
	}
	if n, ok := t.(*types.Named); ok {
		return n.Obj().Name()
	}
	return t.String()
}

// decodesBodyField: the handler (or a function literal of it) has a local of a struct type with a field tagged json:"<field>"
// — the type its request body is decoded into.
func decodesBodyField(fn *ssa.Function, field string) bool {
	var has func(t types.Type, depth int) bool
	has = func(t types.Type, depth int) bool {
		st, ok := derefStruct(t)
		if !ok || depth > 3 {
			return false
		}
		for i := 0; i < st.NumFields(); i++ {
			if reflectTag(st.Tag(i), "json") == field {
				return true
			}
			if st.Field(i).Embedded() && has(st.Field(i).Type(), depth+1) {
				return true
			}
		}
		return false
	}
	for _, f := range append([]*ssa.Function{fn}, closuresOf(fn)...) {
		for _, b := range f.Blocks {
			for _, in := range b.Instrs {
				if al, ok := in.(*ssa.Alloc); ok && has(al.Type(), 0) {
					return true
				}
			}
		}
	}
	return false
}

// enumerateRolePaths: the acyclic paths of a role-computing helper from its entry to its returns, with the request tests
// taken and the string constant returned on each.
func enumerateRolePaths(g *ssa.Function) []policyPath {
	var out []policyPath
	var resolve func(v ssa.Value, trail []*ssa.BasicBlock, depth int) (string, bool)
	resolve = func(v ssa.Value, trail []*ssa.BasicBlock, depth int) (string, bool) {
		if depth > 20 {
			return "", false
		}
		if s, ok := stringOf(v); ok {
			return s, true
		}
		if c, ok := v.(*ssa.Const); ok && c.Value != nil && c.Value.Kind() == constant.Bool {
			return fmt.Sprint(constant.BoolVal(c.Value)), true
		}
		switch x := v.(type) {
		case *ssa.Phi:
			b := x.Block()
			for i := len(trail) - 1; i > 0; i-- {
				if trail[i] == b {
					for pi, p := range b.Preds {
						if p == trail[i-1] {
							return resolve(x.Edges[pi], trail[:i], depth+1)
						}
					}
				}
			}
		case *ssa.ChangeType:
			return resolve(x.X, trail, depth+1)
		case *ssa.Convert:
			return resolve(x.X, trail, depth+1)
		}
		return "", false
	}
	n := 0
	var dfs func(b *ssa.BasicBlock, trail []*ssa.BasicBlock, lits []literal, onStack map[*ssa.BasicBlock]bool)
	dfs = func(b *ssa.BasicBlock, trail []*ssa.BasicBlock, lits []literal, onStack map[*ssa.BasicBlock]bool) {
		if n > 5000 || onStack[b] {
			return
		}
		trail = append(trail, b)
		term := b.Instrs[len(b.Instrs)-1]
		if rt, ok := term.(*ssa.Return); ok {
			role := "?"
			if len(rt.Results) == 1 {
				if s, ok := resolve(retVal(rt, 0), trail, 0); ok {
					role = s
				}
			}
			n++
			out = append(out, policyPath{append([]literal{}, lits...), role})
			return
		}
		onStack[b] = true
		defer delete(onStack, b)
		iff, isIf := term.(*ssa.If)
		if !isIf {
			for _, s := range b.Succs {
				dfs(s, trail, lits, onStack)
			}
			return
		}
		if val, ok := resolve(iff.Cond, trail, 0); ok && (val == "true" || val == "false") {
			if val == "true" {
				dfs(b.Succs[0], trail, lits, onStack)
			} else {
				dfs(b.Succs[1], trail, lits, onStack)
			}
			return
		}
		a, neg, ok := condAtom(followPhis(iff.Cond, trail))
		if !ok {
			dfs(b.Succs[0], trail, lits, onStack)
			dfs(b.Succs[1], trail, lits, onStack)
			return
		}
		dfs(b.Succs[0], trail, append(lits, literal{a, !neg}), onStack)
		dfs(b.Succs[1], trail, append(lits, literal{a, neg}), onStack)
	}
	dfs(g.Blocks[0], nil, nil, map[*ssa.BasicBlock]bool{})
	return out
}

// constNameSet: v is the load of a package-level map[string]bool that is filled once, in the package initialiser, with
// constant keys mapped to true, and that no function of the package writes to: the keys.
func constNameSet(v ssa.Value) ([]string, bool) {
	ld, ok := v.(*ssa.UnOp)
	if !ok || ld.Op != token.MUL {
		return nil, false
	}
	g, ok := ld.X.(*ssa.Global)
	if !ok || g.Pkg == nil {
		return nil, false
	}
	mt, ok := g.Type().(*types.Pointer).Elem().Underlying().(*types.Map)
	if !ok || !isBoolType(mt.Elem()) {
		return nil, false
	}
	var names []string
	var made ssa.Value
	for _, mem := range g.Pkg.Members {
		fn, ok := mem.(*ssa.Function)
		if !ok {
			continue
		}
		for _, f := range append([]*ssa.Function{fn}, closuresOf(fn)...) {
			for _, b := range f.Blocks {
				for _, in := range b.Instrs {
					switch x := in.(type) {
					case *ssa.Store:
						if x.Addr == ssa.Value(g) {
							if f.Name() != "init" || made != nil {
								return nil, false // assigned outside the initialiser, or twice
							}
							made = x.Val
						}
					case *ssa.MapUpdate:
						if lv, ok := x.Map.(*ssa.UnOp); ok && lv.Op == token.MUL && lv.X == ssa.Value(g) {
							return nil, false // written through the variable at run time
						}
					}
				}
			}
		}
	}
	mk, ok := made.(*ssa.MakeMap)
	if !ok || mk.Referrers() == nil {
		return nil, false
	}
	for _, ref := range *mk.Referrers() {
		switch x := ref.(type) {
		case *ssa.MapUpdate:
			k, isK := stringOf(x.Key)
			c, isC := x.Value.(*ssa.Const)
			if !isK || !isC || c.Value == nil || c.Value.Kind() != constant.Bool {
				return nil, false
			}
			if constant.BoolVal(c.Value) {
				names = append(names, k)
			}
		case *ssa.Store:
		default:
			return nil, false
		}
	}
	sort.Strings(names)
	return names, len(names) > 0
}

// followPhis: the value a phi stands for on this trail (the edge taken into its block), through nested phis and NOT;
// anything else is returned as it is.
func followPhis(v ssa.Value, trail []*ssa.BasicBlock) ssa.Value {
	for depth := 0; depth < 20; depth++ {
		x, ok := v.(*ssa.Phi)
		if !ok {
			return v
		}
		b := x.Block()
		next := ssa.Value(nil)
		for i := len(trail) - 1; i > 0 && next == nil; i-- {
			if trail[i] == b {
				for pi, p := range b.Preds {
					if p == trail[i-1] {
						next = x.Edges[pi]
						trail = trail[:i]
					}
				}
			}
		}
		if next == nil {
			return v
		}
		v = next
	}
	return v
}
