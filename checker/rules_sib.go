package main

// rules_sib.go — SIB: sibling agreement; TBL: constant tables; ownership of stored bitmaps.

import (
	"fmt"
	"go/ast"
	"go/constant"
	"go/token"
	"go/types"
	"regexp"
	"sort"
	"strings"

	"golang.org/x/tools/go/ssa"
)

// typeSwitchArms returns, for the first type switch in fi whose subject is the expression named
// subj (identifier), the set of case types (as strings) and whether a default exists.
var anyWord = regexp.MustCompile(`\bany\b`)

// typeSwitchArms: the case types of the type switch over the variable called subj — or, when no type switch is over a
// variable of that name (locals get renamed), of the first type switch with at least three arms.
func typeSwitchArms(fi *FuncInfo, subj string) (arms []string, hasDefault bool, pos token.Pos, ok bool) {
	arms, hasDefault, pos, ok = typeSwitchArmsOf(fi, subj, 0)
	if !ok && subj != "" {
		arms, hasDefault, pos, ok = typeSwitchArmsOf(fi, "", 3)
	}
	return
}

func typeSwitchArmsOf(fi *FuncInfo, subj string, minArms int) (arms []string, hasDefault bool, pos token.Pos, ok bool) {
	info := fi.Pkg.TypesInfo
	ast.Inspect(fi.Decl.Body, func(n ast.Node) bool {
		ts, isTS := n.(*ast.TypeSwitchStmt)
		if !isTS || ok {
			return true
		}
		var x ast.Expr
		switch a := ts.Assign.(type) {
		case *ast.AssignStmt:
			if ta, isTA := a.Rhs[0].(*ast.TypeAssertExpr); isTA {
				x = ta.X
			}
		case *ast.ExprStmt:
			if ta, isTA := a.X.(*ast.TypeAssertExpr); isTA {
				x = ta.X
			}
		}
		id, isId := x.(*ast.Ident)
		if !isId || (subj != "" && id.Name != subj) {
			return true
		}
		if n := 0; minArms > 0 {
			for _, st := range ts.Body.List {
				n += len(st.(*ast.CaseClause).List)
			}
			if n < minArms {
				return true
			}
		}
		ok = true
		pos = ts.Pos()
		for _, st := range ts.Body.List {
			cc := st.(*ast.CaseClause)
			if cc.List == nil {
				hasDefault = true
			}
			for _, e := range cc.List {
				if t := info.TypeOf(e); t != nil {
					// `any` and `interface{}` are two spellings of one type
					arms = append(arms, anyWord.ReplaceAllString(types.TypeString(t, nil), "interface{}"))
				}
			}
		}
		return false
	})
	sort.Strings(arms)
	return
}

func ruleSIB1(w *World, r *Report) {
	r.Doc("SIB-1", "the metadata indexers agree: AddMetadata and AddMetadataUnlocked index the same set of dynamic types, and removeOldIndexEntries has a removal arm for each of them", 3)
	a := w.Func("pkg/core", "DB.AddMetadata")
	b := w.Func("pkg/core", "DB.AddMetadataUnlocked")
	rm := w.Func("pkg/core", "DB.removeOldIndexEntries")
	if a == nil || b == nil || rm == nil {
		r.Und("SIB-1", "anchor:metadata-indexers", "", "anchor lost: AddMetadata/AddMetadataUnlocked/removeOldIndexEntries")
		return
	}
	aa, _, apos, ok1 := typeSwitchArms(a, "value")
	ba, _, bpos, ok2 := typeSwitchArms(b, "value")
	ra, rdef, rpos, ok3 := typeSwitchArms(rm, "oldValue")
	if !ok1 || !ok2 || !ok3 {
		r.Und("SIB-1", "anchor:type-switches", "", "cannot find the type switch over the metadata value in one of the indexers")
		return
	}
	r.Cond(strings.Join(aa, ",") == strings.Join(ba, ","), "SIB-1", "AddMetadataUnlocked=AddMetadata", w.Pos(bpos),
		"both index {"+strings.Join(aa, ", ")+"}",
		fmt.Sprintf("AddMetadata indexes {%s} but AddMetadataUnlocked (snapshot restore, compression) indexes {%s}: a filter on the missing type matches live but not after restore/compress", strings.Join(aa, ", "), strings.Join(ba, ", ")))
	_ = apos
	have := map[string]bool{}
	for _, t := range ra {
		have[t] = true
	}
	for _, t := range aa {
		ok := have[t] || (rdef && t == "float64") // numeric removal lives in the default arm (toFloat64Ok)
		r.Cond(ok, "SIB-1", "removeOldIndexEntries:has:"+t, w.Pos(rpos), "removal arm present", "values of type "+t+" are indexed but never removed from the secondary index when overwritten: stale ids keep matching")
	}
	// deletion: DeleteMetadata must take the node out of every posting list it can be in. Visiting every list of the
	// inverted index does that for any value type; going straight to the lists named by the node's current values
	// does it only with a removal arm per indexed type (a list value sits in one posting list per element)
	if dm := w.Func("pkg/core", "DB.DeleteMetadata"); dm == nil {
		r.Und("SIB-1", "anchor:DB.DeleteMetadata", "", "anchor lost")
	} else {
		dfn := w.SSAFunc(dm.Obj)
		var removes []ssa.Instruction
		for _, f := range append([]*ssa.Function{dfn}, w.extractedHelpers(dfn)...) { // (the index clean-up may be a phase function of its own)
			removes = append(removes, findInstrs(f, func(in ssa.Instruction) bool { return isMethodCall(in, "RoaringBitmap/roaring", "Bitmap.Remove") })...)
		}
		directed := 0
		var dpos token.Pos
		for _, rm := range removes {
			recv := rm.(*ssa.Call).Call.Args[0]
			exhaustive := false
			for _, leaf := range valueRoots(recv) {
				if ex, ok := leaf.(*ssa.Extract); ok {
					if _, isNext := ex.Tuple.(*ssa.Next); isNext {
						exhaustive = true
					}
				}
			}
			if !exhaustive {
				directed++
				dpos = rm.Pos()
			}
		}
		if len(removes) == 0 {
			r.Bad("SIB-1", "DeleteMetadata:leaves-every-posting-list", w.Pos(dm.Decl.Pos()), "DeleteMetadata no longer removes the node from the inverted index: a deleted vector keeps matching equality filters")
		} else if directed == 0 {
			r.Ok("SIB-1", "DeleteMetadata:leaves-every-posting-list", w.Pos(dm.Decl.Pos()), "every posting list of the index is visited (independent of the value's type)")
		} else {
			da, ddef, _, okd := typeSwitchArms(dm, "")
			have := map[string]bool{}
			for _, t := range da {
				have[t] = true
			}
			missing := []string{}
			for _, t := range aa {
				if !(okd && (have[t] || (ddef && t == "float64"))) {
					missing = append(missing, t)
				}
			}
			r.Cond(len(missing) == 0, "SIB-1", "DeleteMetadata:leaves-every-posting-list", w.Pos(dpos), "value-directed removal has an arm for every indexed type", "DeleteMetadata goes straight to the posting list named by the node's current value but has no removal arm for {"+strings.Join(missing, ", ")+"}: a value of that type (a list sits in one posting list per element) leaves the deleted node's id behind, and the deleted — or re-added — vector keeps matching filters on values it no longer has")
		}
	}
	// text analysis: both indexers choose the analyser by the same language switch
	langs := func(fi *FuncInfo) string {
		var ls []string
		ast.Inspect(fi.Decl.Body, func(n ast.Node) bool {
			sw, ok := n.(*ast.SwitchStmt)
			if !ok || sw.Tag == nil {
				return true
			}
			if c, ok := sw.Tag.(*ast.CallExpr); ok {
				if sel, ok := c.Fun.(*ast.SelectorExpr); ok && sel.Sel.Name == "TextLanguage" {
					for _, st := range sw.Body.List {
						for _, e := range st.(*ast.CaseClause).List {
							if tv := fi.Pkg.TypesInfo.Types[e]; tv.Value != nil {
								ls = append(ls, constant.StringVal(tv.Value))
							}
						}
					}
				}
			}
			return true
		})
		sort.Strings(ls)
		return strings.Join(ls, ",")
	}
	r.Cond(langs(a) == langs(b) && langs(a) != "", "SIB-1", "analyser-languages-agree", w.Pos(bpos), "both choose the analyser for {"+langs(a)+"}", fmt.Sprintf("text analyser selection differs: AddMetadata {%s}, AddMetadataUnlocked {%s}", langs(a), langs(b)))
}

// ---------- TBL-ops ----------

func ruleTBLops(w *World, r *Report) {
	r.Doc("TBL-ops", "the operators recognised by findFilterOperator are exactly the operators evaluateBooleanFilter has an arm for", 6)
	ff := w.Func("pkg/core", "findFilterOperator")
	ev := w.Func("pkg/core", "DB.evaluateBooleanFilter")
	if ff == nil || ev == nil {
		r.Und("TBL-ops", "anchor:filter-operator-functions", "", "anchor lost")
		return
	}
	opChars := "=!<>"
	isOp := func(s string) bool {
		if s == "" {
			return false
		}
		for _, c := range s {
			if !strings.ContainsRune(opChars, c) {
				return false
			}
		}
		return true
	}
	collect := func(fi *FuncInfo, onlyTag string) map[string]token.Pos {
		out := map[string]token.Pos{}
		info := fi.Pkg.TypesInfo
		ast.Inspect(fi.Decl.Body, func(n ast.Node) bool {
			sw, ok := n.(*ast.SwitchStmt)
			if !ok {
				return true
			}
			if onlyTag != "" {
				id, ok := sw.Tag.(*ast.Ident)
				if !ok || id.Name != onlyTag {
					return true
				}
			}
			for _, st := range sw.Body.List {
				for _, e := range st.(*ast.CaseClause).List {
					tv := info.Types[e]
					if tv.Value == nil {
						continue
					}
					var s string
					switch tv.Value.Kind() {
					case constant.String:
						s = constant.StringVal(tv.Value)
					case constant.Int:
						if v, ok := constant.Int64Val(tv.Value); ok && v < 128 {
							s = string(rune(v))
						}
					}
					if isOp(s) {
						out[s] = e.Pos()
					}
				}
			}
			return true
		})
		return out
	}
	rec := collect(ff, "")
	arms := collect(ev, "op")
	for op, p := range rec {
		_, ok := arms[op]
		r.Cond(ok, "TBL-ops", "recognised:"+op, w.Pos(p), "has an evaluation arm", "operator "+op+" is recognised by the filter parser but evaluateBooleanFilter has no arm for it")
	}
	for op, p := range arms {
		_, ok := rec[op]
		r.Cond(ok, "TBL-ops", "evaluated:"+op, w.Pos(p), "is recognised by the parser", "evaluateBooleanFilter has an arm for "+op+" that the parser can never produce")
	}
}

// ---------- GRD-live / planner shape ----------

func ruleGRDlive(w *World, r *Report) {
	r.Doc("GRD-live", "the != operator complements against the set of LIVE node ids (GetAllValidNodeIDs, which skips Deleted nodes); the planner splits on OR outside and AND inside", 4)
	ev := w.Func("pkg/core", "DB.evaluateBooleanFilter")
	valid := w.Func("pkg/core/hnsw", "Index.GetAllValidNodeIDs")
	locked := w.FuncObj("pkg/core", "DB.getAllValidNodeIDsLocked")
	if ev == nil || valid == nil {
		r.Und("GRD-live", "anchor:evaluateBooleanFilter/GetAllValidNodeIDs", "", "anchor lost")
		return
	}
	fn := w.SSAFunc(ev.Obj)
	n := 0
	for _, in := range findInstrs(fn, func(in ssa.Instruction) bool { return isMethodCall(in, "RoaringBitmap/roaring", "Bitmap.AndNot") }) {
		n++
		c := in.(*ssa.Call)
		ok := derivesFromCallAny(c.Call.Args[0], locked, 0) || derivesFromCallAny(c.Call.Args[0], valid.Obj, 0)
		r.Cond(ok, "GRD-live", "evaluateBooleanFilter:complement-base", w.Pos(c.Pos()), "complement is taken against the live-id set", "the != complement is not taken against GetAllValidNodeIDs: deleted (or never existing) ids satisfy `field != value`")
	}
	if n == 0 {
		r.Bad("GRD-live", "evaluateBooleanFilter:complement-base", w.Pos(ev.Decl.Pos()), "the != arm no longer complements (no AndNot): ids lacking the field are not matched")
	}
	// the DB-side wrapper hands out exactly the index's live-id set (or an empty set when the index has no nodes to
	// speak of): ids must come from the vector index itself — a vector stored without metadata is live too, so no
	// metadata-side map can stand in for it
	if locked != nil {
		if lfn := w.SSAFunc(locked); lfn != nil {
			k := 0
			for _, b := range lfn.Blocks {
				rt, ok := b.Instrs[len(b.Instrs)-1].(*ssa.Return)
				if !ok || len(rt.Results) == 0 {
					continue
				}
				for _, leaf := range valueRoots(retVal(rt, 0)) {
					if isNilConst(leaf) {
						continue
					}
					k++
					okSrc := derivesFromCallAny(leaf, valid.Obj, 0)
					if !okSrc {
						// an empty set: roaring.New() that nothing is added to
						if c, isCall := leaf.(*ssa.Call); isCall && commonIs(&c.Call, "github.com/RoaringBitmap/roaring", "New") {
							okSrc = true
							for _, ref := range *c.Referrers() {
								if rc, isC := ref.(*ssa.Call); isC && rc.Call.Value != nil {
									if o := calleeObj(&rc.Call); o != nil && len(rc.Call.Args) > 0 && rc.Call.Args[0] == ssa.Value(c) && o.Name() != "IsEmpty" {
										okSrc = false // something is put into it
									}
								}
							}
						}
					}
					r.Cond(okSrc, "GRD-live", fmt.Sprintf("getAllValidNodeIDsLocked:returns-index-live-set#%d", k), w.Pos(rt.Pos()), "the set handed to the != complement is the vector index's own live-id set (or empty)", "getAllValidNodeIDsLocked builds the complement base from something other than the vector index's live-id set: vectors that are live but absent from that source (for example stored without metadata) no longer satisfy `field != value`, and ids present there but deleted in the index do")
				}
			}
		}
	}
	// GetAllValidNodeIDs: every Add to the result is guarded by the Deleted test
	vfn := w.SSAFunc(valid.Obj)
	adds := findInstrs(vfn, func(in ssa.Instruction) bool {
		return isMethodCall(in, "RoaringBitmap/roaring", "Bitmap.Add") || isMethodCall(in, "RoaringBitmap/roaring", "Bitmap.AddMany")
	})
	deletedLoad := func(in ssa.Instruction) bool {
		c, ok := in.(*ssa.Call)
		if !ok {
			return false
		}
		o := calleeObj(&c.Call)
		return o != nil && o.Pkg() != nil && o.Pkg().Path() == "sync/atomic" && shortName(o) == "Bool.Load" && recvIsField(c, "Deleted")
	}
	if len(adds) == 0 {
		r.Und("GRD-live", "GetAllValidNodeIDs:adds", w.Pos(valid.Decl.Pos()), "cannot find where GetAllValidNodeIDs adds ids to its result")
	}
	for i, a := range adds {
		aa := a
		ok, wit := mustPassGuard(vfn, func(in ssa.Instruction) bool { return in == aa }, deletedLoad, callValue, false, nil)
		r.Cond(ok, "GRD-live", fmt.Sprintf("GetAllValidNodeIDs:add#%d:not-deleted", i+1), w.Pos(a.Pos()), "only non-deleted nodes are added", "GetAllValidNodeIDs can add a node without passing the not-Deleted test: deleted ids satisfy != filters", w.witness(wit)...)
	}
	// planner: input of the AND split derives from an element of the OR split
	pl := w.Func("pkg/core", "DB.FindIDsByFilter")
	if pl == nil {
		r.Und("GRD-live", "anchor:FindIDsByFilter", "", "anchor lost")
		return
	}
	pfn := w.SSAFunc(pl.Obj)
	var orSplit, andSplit *ssa.Call
	for _, in := range findInstrs(pfn, func(in ssa.Instruction) bool { return isCallTo(in, "regexp", "Regexp.Split") }) {
		c := in.(*ssa.Call)
		if ld, ok := c.Call.Args[0].(*ssa.UnOp); ok {
			if g, ok := ld.X.(*ssa.Global); ok {
				ln := strings.ToLower(g.Name())
				if strings.Contains(ln, "or") && !strings.Contains(ln, "and") {
					orSplit = c
				}
				if strings.Contains(ln, "and") {
					andSplit = c
				}
			}
		}
	}
	if orSplit == nil || andSplit == nil {
		r.Und("GRD-live", "FindIDsByFilter:splits", w.Pos(pl.Decl.Pos()), "cannot identify the OR and AND splits of the planner")
		return
	}
	r.Cond(flowsFromElemOf(andSplit.Call.Args[1], orSplit, 0), "GRD-live", "FindIDsByFilter:or-outside-and-inside", w.Pos(andSplit.Pos()), "AND split is applied to each OR block",
		"the planner no longer splits each OR block by AND (precedence changed): `a AND b OR c` is evaluated with the wrong grouping")
	// inner combination is And, outer is Or
	nAnd := len(findInstrs(pfn, func(in ssa.Instruction) bool { return isMethodCall(in, "RoaringBitmap/roaring", "Bitmap.And") }))
	nOr := len(findInstrs(pfn, func(in ssa.Instruction) bool { return isMethodCall(in, "RoaringBitmap/roaring", "Bitmap.Or") }))
	r.Cond(nAnd >= 1 && nOr >= 1, "GRD-live", "FindIDsByFilter:and-then-or", w.Pos(pl.Decl.Pos()), "AND blocks are intersected, OR blocks united", fmt.Sprintf("planner combination changed (And calls %d, Or calls %d)", nAnd, nOr))
	// the And happens inside the loop over AND clauses, the Or outside it: Or must not be reachable from And without leaving the inner loop — approximated by block nesting
}

// flowsFromElemOf: v derives (through string helpers) from an element of the slice returned by call src.
func flowsFromElemOf(v ssa.Value, src *ssa.Call, depth int) bool {
	if depth > 8 || v == nil {
		return false
	}
	switch x := v.(type) {
	case *ssa.Call:
		if x == src {
			return true
		}
		for _, a := range x.Call.Args {
			if flowsFromElemOf(a, src, depth+1) {
				return true
			}
		}
	case *ssa.UnOp:
		return flowsFromElemOf(x.X, src, depth+1)
	case *ssa.IndexAddr:
		return flowsFromElemOf(x.X, src, depth+1)
	case *ssa.Index:
		return flowsFromElemOf(x.X, src, depth+1)
	case *ssa.Phi:
		for _, e := range x.Edges {
			if flowsFromElemOf(e, src, depth+1) {
				return true
			}
		}
	case *ssa.Extract:
		return flowsFromElemOf(x.Tuple, src, depth+1)
	case *ssa.Next:
		return flowsFromElemOf(x.Iter, src, depth+1)
	case *ssa.Range:
		return flowsFromElemOf(x.X, src, depth+1)
	}
	return false
}

// ---------- GRD-alias: stored bitmaps are never mutated by queries ----------

var bitmapMutators = map[string]bool{"Bitmap.And": true, "Bitmap.Or": true, "Bitmap.AndNot": true, "Bitmap.Xor": true, "Bitmap.Add": true, "Bitmap.Remove": true, "Bitmap.AddMany": true, "Bitmap.Clear": true, "Bitmap.Flip": true, "Bitmap.RemoveRange": true, "Bitmap.AddRange": true}

func ruleGRDalias(w *World, r *Report) {
	r.Doc("GRD-alias", "query-path code mutates only bitmaps it owns (fresh from roaring.New/Clone or from a function whose every return is fresh); a bitmap stored in the secondary index is never handed out and modified in place", 8)
	queryFns := []struct{ pkg, name string }{
		{"pkg/core", "DB.FindIDsByFilter"}, {"pkg/core", "DB.evaluateBooleanFilter"}, {"pkg/core", "DB.getAllValidNodeIDsLocked"},
		{"pkg/engine", "Engine.searchWithFusion"}, {"pkg/engine", "Engine.resolveGraphFilter"}, {"pkg/engine", "Engine.VFilter"},
	}
	freshMemo := map[*types.Func]int{} // 0 unknown, 1 fresh, 2 not fresh, 3 in progress
	var freshValue func(v ssa.Value, seen map[ssa.Value]bool) (bool, string)
	var freshFunc func(f *types.Func) bool
	freshFunc = func(f *types.Func) bool {
		if f == nil {
			return false
		}
		switch freshMemo[f] {
		case 1:
			return true
		case 2:
			return false
		case 3:
			return true // optimistic on recursion
		}
		freshMemo[f] = 3
		fn := w.SSAFunc(f)
		if fn == nil || len(fn.Blocks) == 0 {
			freshMemo[f] = 2
			return false
		}
		ok := true
		for _, b := range fn.Blocks {
			if rt, isRt := b.Instrs[len(b.Instrs)-1].(*ssa.Return); isRt && len(rt.Results) > 0 {
				v := retVal(rt, 0)
				if isNilConst(v) {
					continue
				}
				if fr, _ := freshValue(v, map[ssa.Value]bool{}); !fr {
					ok = false
				}
			}
		}
		if ok {
			freshMemo[f] = 1
		} else {
			freshMemo[f] = 2
		}
		return ok
	}
	freshValue = func(v ssa.Value, seen map[ssa.Value]bool) (bool, string) {
		if v == nil {
			return false, "unknown"
		}
		if seen[v] {
			return true, ""
		}
		seen[v] = true
		switch x := v.(type) {
		case *ssa.Call:
			o := calleeObj(&x.Call)
			if o == nil {
				return false, "result of a dynamic call"
			}
			if o.Pkg() != nil && strings.HasSuffix(o.Pkg().Path(), "RoaringBitmap/roaring") {
				switch shortName(o) {
				case "New", "NewBitmap", "BitmapOf", "Bitmap.Clone", "And", "Or", "AndNot", "Xor", "FastOr", "FastAnd", "ParOr", "ParAnd":
					return true, ""
				}
				return false, "result of roaring." + shortName(o)
			}
			if strings.HasPrefix(o.Pkg().Path(), modPath) {
				if freshFunc(o) {
					return true, ""
				}
				return false, "result of " + shortName(o) + " (which can return a stored bitmap)"
			}
			return false, "result of " + shortName(o)
		case *ssa.Extract:
			return freshValue(x.Tuple, seen)
		case *ssa.Phi:
			for _, e := range x.Edges {
				if isNilConst(e) {
					continue
				}
				if fr, why := freshValue(e, seen); !fr {
					return false, why
				}
			}
			return true, ""
		case *ssa.UnOp:
			// load of a local variable: all stores must be fresh
			if al, ok := x.X.(*ssa.Alloc); ok {
				for _, ref := range *al.Referrers() {
					if st, ok := ref.(*ssa.Store); ok && st.Addr == al {
						if isNilConst(st.Val) {
							continue
						}
						if fr, why := freshValue(st.Val, seen); !fr {
							return false, why
						}
					}
				}
				return true, ""
			}
			if fv, ok := x.X.(*ssa.FreeVar); ok {
				_ = fv
				return true, "" // captured local of the enclosing query function: checked there
			}
			return false, "loaded from a map/field (a stored bitmap)"
		case *ssa.Lookup:
			return false, "map element (a stored bitmap)"
		case *ssa.Parameter:
			return false, "parameter " + x.Name()
		case *ssa.Const:
			return true, ""
		}
		return false, fmt.Sprintf("%T", v)
	}
	n := 0
	for _, q := range queryFns {
		fi := w.Func(q.pkg, q.name)
		if fi == nil {
			r.Und("GRD-alias", "anchor:"+q.name, "", "anchor lost")
			continue
		}
		fn := w.SSAFunc(fi.Obj)
		for _, f := range append([]*ssa.Function{fn}, closuresOf(fn)...) {
			k := 0
			for _, b := range f.Blocks {
				for _, in := range b.Instrs {
					c, ok := in.(*ssa.Call)
					if !ok {
						continue
					}
					o := calleeObj(&c.Call)
					if o == nil || o.Pkg() == nil || !strings.HasSuffix(o.Pkg().Path(), "RoaringBitmap/roaring") || !bitmapMutators[shortName(o)] {
						continue
					}
					k++
					n++
					fr, why := freshValue(c.Call.Args[0], map[ssa.Value]bool{})
					key := fmt.Sprintf("%s:%s#%d", shortName(fi.Obj), shortName(o), k)
					r.Cond(fr, "GRD-alias", key, w.Pos(c.Pos()), "receiver is a bitmap owned by the query",
						fmt.Sprintf("%s is applied in place to a bitmap that is not owned by the query (%s): evaluating a filter shrinks/grows the STORED index bitmap, so later answers depend on earlier queries", shortName(o), why))
				}
			}
		}
	}
	r.Count("bitmap_mutations_in_query_path", n)
	// the result handed to callers is owned too
	for _, nm := range []string{"DB.FindIDsByFilter", "DB.evaluateBooleanFilter"} {
		if o := w.FuncObj("pkg/core", nm); o != nil {
			r.Cond(freshFunc(o), "GRD-alias", nm+":returns-owned-bitmap", w.Pos(w.Decl(o).Decl.Pos()), "every return is a fresh bitmap", nm+" can return a bitmap stored in the secondary index: callers intersect it in place")
		}
	}
}

// ---------- SIB-same ----------

// ruleSIBnumconv: toFloat64Ok decides "is this metadata value a number" for the B-tree indexer, the removal path and
// the unchanged-value shortcut. It must accept numeric dynamic types only: a string that merely looks numeric is indexed
// as a string, so treating it as equal to the number sends an update down the "value unchanged" shortcut and the entry
// never moves between the string index and the numeric one.
func ruleSIBnumconv(w *World, r *Report) {
	r.Doc("SIB-numconv", "toFloat64Ok, the one numeric-conversion helper of the metadata indexes, has type-switch arms for numeric basic types only", 1)
	fi := w.Func("pkg/core", "toFloat64Ok")
	if fi == nil {
		r.Und("SIB-numconv", "anchor:toFloat64Ok", "", "anchor lost")
		return
	}
	arms, _, pos, ok := typeSwitchArms(fi, "")
	if !ok {
		r.Und("SIB-numconv", "toFloat64Ok:type-switch", w.Pos(fi.Decl.Pos()), "toFloat64Ok no longer decides by a type switch (shape not recognised)")
		return
	}
	var bad []string
	numeric := map[string]bool{"float64": true, "float32": true, "int": true, "int8": true, "int16": true, "int32": true, "int64": true, "uint": true, "uint8": true, "uint16": true, "uint32": true, "uint64": true, "encoding/json.Number": false}
	for _, a := range arms {
		if !numeric[a] {
			bad = append(bad, a)
		}
	}
	r.Cond(len(bad) == 0, "SIB-numconv", "toFloat64Ok:numeric-arms-only", w.Pos(pos), "accepts {"+strings.Join(arms, ", ")+"}", "toFloat64Ok also converts {"+strings.Join(bad, ", ")+"}: a value of that type is treated as equal to the number it spells, so an update that changes a field between string and number takes the 'value unchanged' shortcut — the entry stays in the old secondary index and live range / != filters answer from the old type until a restart rebuilds the indexes")
}

func ruleSIBsame(w *World, r *Report) {
	r.Doc("SIB-same", "the 'value unchanged' shortcut of the metadata indexers compares type-sensitively (numeric equality / reflect.DeepEqual), never through a string rendering that conflates \"10\" with 10", 1)
	fi := w.Func("pkg/core", "isSameAnyValue")
	if fi == nil {
		r.Und("SIB-same", "anchor:isSameAnyValue", "", "anchor lost: the unchanged-value shortcut")
		return
	}
	fn := w.SSAFunc(fi.Obj)
	deep, render := false, ""
	for _, b := range fn.Blocks {
		for _, in := range b.Instrs {
			if c := callCommon(in); c != nil {
				if o := calleeObj(c); o != nil && o.Pkg() != nil {
					if o.Pkg().Path() == "reflect" && o.Name() == "DeepEqual" {
						deep = true
					}
					if o.Pkg().Path() == "fmt" || o.Pkg().Path() == "strconv" || o.Pkg().Path() == "encoding/json" {
						render = o.Pkg().Path() + "." + o.Name()
					}
				}
			}
		}
	}
	r.Cond(deep, "SIB-same", "isSameAnyValue:type-sensitive", w.Pos(fi.Decl.Pos()), "falls back to reflect.DeepEqual", "the unchanged-value shortcut no longer uses a type-sensitive comparison: a value whose TYPE changed is treated as unchanged and the secondary indexes keep the old type")
	r.Cond(render == "", "SIB-same", "isSameAnyValue:no-string-rendering", w.Pos(fi.Decl.Pos()), "no string rendering involved", "the unchanged-value shortcut compares string renderings ("+render+"): \"10\" and 10 count as the same value, so a type-changing overwrite is not re-indexed and range filters answer from the stale type")
}
