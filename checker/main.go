package main

// kvlint — repository-specific static analyser for sanonone/kektordb.
//
//   kvlint check <Cxx> [--tier quick|thorough] [--repo /repo] [--verif /verif]
//   kvlint explain <replay.json>
//   kvlint list
//
// Every `check` reloads and type-checks the current working tree of --repo.

import (
	"encoding/json"
	"flag"
	"fmt"
	"os"
	"path/filepath"
	"runtime/debug"
	"sort"
	"strconv"
	"strings"
	"time"
)

type propDef struct {
	ID    string
	Title string
	Run   func(w *World, r *Report)
	// Extra build configurations analysed in thorough tier (tags / GOARCH).
}

var props = map[string]*propDef{}

func register(id, title string, run func(w *World, r *Report)) {
	props[id] = &propDef{ID: id, Title: title, Run: run}
}

func main() {
	if len(os.Args) < 2 {
		usage()
	}
	switch os.Args[1] {
	case "check":
		os.Exit(cmdCheck(os.Args[2:]))
	case "explain":
		os.Exit(cmdExplain(os.Args[2:]))
	case "seeded":
		if len(os.Args) < 3 {
			usage()
		}
		res := runSeeded(os.Args[2], "/repo", defaultVerif())
		for _, d := range res["details"].([]map[string]any) {
			fmt.Printf("%-9s %-8s %v %v\n", d["outcome"], d["seed"], d["reports"], d["note"])
		}
		fmt.Printf("seeded %s: reported %v / %v (missed %v, skipped %v, harmless %v)\n", os.Args[2], res["seeded_reported"], res["seeded_total"], res["seeded_missed"], res["seeded_skipped"], res["seeded_harmless"])
		if m, _ := res["seeded_missed"].(int); m > 0 {
			os.Exit(1)
		}
		os.Exit(0)
	case "anchors": // prints anchor_baseline.go (development aid; see anchors.go)
		os.Exit(cmdAnchors("/repo", defaultVerif()))
	case "wire-schema": // prints the table TBL-wire freezes (development aid)
		w, err := Load("/repo", "quick", "", nil)
		if err != nil {
			fmt.Println(err)
			os.Exit(2)
		}
		sites := wireSites(w)
		var keys []string
		for k := range sites {
			keys = append(keys, k)
		}
		sort.Strings(keys)
		for _, k := range keys {
			fmt.Printf("\t%q: %q,\n", k, sites[k])
		}
		os.Exit(0)
	case "refactorings":
		if len(os.Args) < 3 {
			usage()
		}
		res := runRefactorings(os.Args[2], "/repo", defaultVerif())
		for _, d := range res["details"].([]map[string]any) {
			fmt.Printf("%-11s %-10s %v %v\n", d["outcome"], d["refactoring"], d["reports"], d["note"])
		}
		fmt.Printf("refactorings %s: quiet %v / %v (reported %v, skipped %v)\n", os.Args[2], res["refactorings_quiet"], res["refactorings_total"], res["refactorings_reported"], res["refactorings_skipped"])
		if m, _ := res["refactorings_reported"].(int); m > 0 {
			os.Exit(1)
		}
		os.Exit(0)
	case "selftest":
		os.Exit(cmdSelftest(os.Args[2:]))
	case "list":
		ids := []string{}
		for id := range props {
			ids = append(ids, id)
		}
		sort.Strings(ids)
		for _, id := range ids {
			fmt.Println(id, props[id].Title)
		}
	default:
		usage()
	}
}

func usage() {
	fmt.Fprintln(os.Stderr, "usage: kvlint check <Cxx> [--tier quick|thorough] [--repo DIR] [--verif DIR] | explain <file> | selftest <Cxx> | seeded <Cxx> | list")
	os.Exit(2)
}

type overlayFlag map[string]string

func (o overlayFlag) String() string { return "" }
func (o overlayFlag) Set(s string) error {
	i := strings.IndexByte(s, '=')
	if i < 0 {
		return fmt.Errorf("want path=file")
	}
	o[s[:i]] = s[i+1:]
	return nil
}

func cmdCheck(args []string) int {
	if len(args) < 1 {
		usage()
	}
	id := args[0]
	fs := flag.NewFlagSet("check", flag.ExitOnError)
	tier := fs.String("tier", envOr("VERIF_TIER", "quick"), "quick|thorough")
	repo := fs.String("repo", "/repo", "repository root")
	verif := fs.String("verif", defaultVerif(), "verif dir (evidence/, out/, known_findings.json)")
	noWrite := fs.Bool("no-write", false, "do not write evidence or replay records")
	noSelf := fs.Bool("no-selftest", false, "skip checker self-validation in thorough tier")
	ov := overlayFlag{}
	fs.Var(ov, "overlay", "repo-relative-path=replacement-file (analyse a variant without touching the repo)")
	fs.Parse(args[1:])
	p := props[id]
	started := time.Now()
	seed, _ := strconv.Atoi(os.Getenv("VERIF_SEED"))
	if p == nil {
		fmt.Printf("VIOLATION property=%s replay=unknown-property\n", id)
		return 1
	}
	if *tier != "quick" && *tier != "thorough" {
		*tier = "quick"
	}
	r := NewReport(id)
	opts := runOpts{verifDir: *verif, tier: *tier, seed: seed, started: started, noWrite: *noWrite}
	fail := func(what string, err any) int {
		r.Und("LOAD", what, "", fmt.Sprint(err))
		r.Doc("LOAD", "the module loads, type-checks and the analysis completes", 0)
		return r.Finish(opts)
	}
	overlay := map[string][]byte{}
	for rel, file := range ov {
		b, err := os.ReadFile(file)
		if err != nil {
			return fail("overlay", err)
		}
		overlay[filepath.Join(*repo, rel)] = b
	}
	code := func() (code int) {
		defer func() {
			if e := recover(); e != nil {
				code = fail("analysis-panic", fmt.Sprintf("%v\n%s", e, debug.Stack()))
			}
		}()
		w, err := Load(*repo, *tier, "", overlay)
		if err != nil {
			return fail("load", err)
		}
		r.Count("packages", len(w.Pkgs))
		r.Count("functions", len(w.ModuleFuncs()))
		p.Run(w, r)
		if w.cg != nil {
			r.Notes = append(r.Notes, "call graph: "+w.cgKind)
		}
		if *tier == "thorough" {
			opts.tagsRuns = thoroughConfigs(id, *repo, overlay, r)
			if !*noSelf && len(ov) == 0 {
				opts.selftest = runSelftests(id, *repo, *verif)
				opts.selftest["seeded_changes"] = runSeeded(id, *repo, *verif)
				opts.selftest["refactorings"] = runRefactorings(id, *repo, *verif)
			}
		}
		return r.Finish(opts)
	}()
	return code
}

func envOr(k, d string) string {
	if v := os.Getenv(k); v != "" {
		return v
	}
	return d
}

func defaultVerif() string {
	if exe, err := os.Executable(); err == nil {
		d := filepath.Dir(filepath.Dir(exe))
		if _, err := os.Stat(filepath.Join(d, "MANIFEST.json")); err == nil {
			return d
		}
	}
	if wd, err := os.Getwd(); err == nil {
		if _, err := os.Stat(filepath.Join(wd, "MANIFEST.json")); err == nil {
			return wd
		}
	}
	return "/verif"
}

func cmdExplain(args []string) int {
	if len(args) < 1 {
		usage()
	}
	b, err := os.ReadFile(args[0])
	if err != nil {
		fmt.Println(err)
		return 2
	}
	var rec struct {
		Property, Rule, Construct string
	}
	if err := json.Unmarshal(b, &rec); err != nil {
		fmt.Println(err)
		return 2
	}
	fmt.Printf("re-deriving %s %s %s on the current tree\n", rec.Property, rec.Rule, rec.Construct)
	p := props[rec.Property]
	if p == nil {
		return 2
	}
	w, err := Load("/repo", "quick", "", nil)
	if err != nil {
		fmt.Println(err)
		return 2
	}
	r := NewReport(rec.Property)
	p.Run(w, r)
	n := 0
	for _, ob := range r.Obs {
		if ob.Rule == rec.Rule && ob.Construct == rec.Construct {
			bb, _ := json.MarshalIndent(ob, "", " ")
			fmt.Println(string(bb))
			if ob.Verdict != OK {
				n++
			}
		}
	}
	if n > 0 {
		fmt.Printf("VIOLATION property=%s replay=%s\n", rec.Property, args[0])
		return 1
	}
	fmt.Println("obligation holds on the current tree")
	return 0
}
