package main

// rules_bce.go — GRD-slice (C20): no index or slice expression of the text functions can fail its bounds check.
//
// Two static provers are combined. The Go compiler's prove pass already eliminates every bounds check it can show
// to be safe (`-d=ssa/check_bce/debug=1` lists the rest; inlining is disabled so that positions stay in the
// function that contains the expression). For each remaining check in the anchored files a small forward
// dataflow over the SSA of that function computes a lower bound on len(x) for every string/slice x from the
// idioms the code uses — strings.HasSuffix/HasPrefix(x, k) on the true edge, comparisons of len(x) with a
// constant, re-slicing by a constant, string→[]rune conversion of a non-empty string — and the expression must be
// within that bound. What neither prover discharges is a violation unless it is in the exception table below
// (one expression each, with the argument why it is safe).

import (
	"bytes"
	"encoding/json"
	"fmt"
	"go/ast"
	"go/token"
	"go/types"
	"os"
	"os/exec"
	"path/filepath"
	"regexp"
	"sort"
	"strconv"
	"strings"

	"golang.org/x/tools/go/ssa"
)

type bceSite struct {
	file      string // repo-relative
	line, col int
	kind      string
}

var bceLine = regexp.MustCompile(`^(?:\./)?(\S+\.go):(\d+):(\d+): Found (IsInBounds|IsSliceInBounds)`)

// compilerUnprovenBounds asks the compiler which bounds checks it could not eliminate in the given packages.
func compilerUnprovenBounds(w *World, pkgs []string) ([]bceSite, error) {
	args := []string{"build", "-gcflags=-l -d=ssa/check_bce/debug=1"}
	if len(w.Overlay) > 0 {
		dir, err := os.MkdirTemp("", "kvlint-ov")
		if err != nil {
			return nil, err
		}
		defer os.RemoveAll(dir)
		repl := map[string]string{}
		i := 0
		for path, content := range w.Overlay {
			i++
			f := filepath.Join(dir, fmt.Sprintf("f%d.go", i))
			if err := os.WriteFile(f, content, 0o644); err != nil {
				return nil, err
			}
			repl[path] = f
		}
		js, _ := json.Marshal(map[string]any{"Replace": repl})
		ov := filepath.Join(dir, "overlay.json")
		if err := os.WriteFile(ov, js, 0o644); err != nil {
			return nil, err
		}
		args = append(args, "-overlay="+ov)
	}
	args = append(args, pkgs...)
	cmd := exec.Command("go", args...)
	cmd.Dir = w.Repo
	cmd.Env = goEnv()
	var out bytes.Buffer
	cmd.Stdout, cmd.Stderr = &out, &out
	err := cmd.Run()
	var sites []bceSite
	for _, l := range strings.Split(out.String(), "\n") {
		m := bceLine.FindStringSubmatch(strings.TrimSpace(l))
		if m == nil {
			continue
		}
		ln, _ := strconv.Atoi(m[2])
		cl, _ := strconv.Atoi(m[3])
		sites = append(sites, bceSite{file: filepath.ToSlash(m[1]), line: ln, col: cl, kind: m[4]})
	}
	if err != nil && len(sites) == 0 {
		return nil, fmt.Errorf("go build -d=ssa/check_bce failed: %v: %s", err, firstLines(out.String(), 5))
	}
	return sites, nil
}

// ---------- length lower bounds ----------

const lbTop = 1 << 30

type lenFacts struct {
	fn *ssa.Function
	// lower bound on len(x) that holds on entry to block b, from branch conditions
	in map[*ssa.BasicBlock]map[ssa.Value]int
	// len(x) >= len(y) established on entry to block b
	geq map[*ssa.BasicBlock]map[[2]ssa.Value]bool
}

func lenArg(v ssa.Value) (ssa.Value, bool) {
	c, ok := v.(*ssa.Call)
	if !ok {
		return nil, false
	}
	if _, isLen := isBuiltinCall(c, "len"); !isLen {
		return nil, false
	}
	return c.Call.Args[0], true
}

// edgeFacts: what the edge pred→succ (index si) tells about lengths.
func edgeFacts(pred *ssa.BasicBlock, si int) (lbs map[ssa.Value]int, geqs [][2]ssa.Value) {
	lbs = map[ssa.Value]int{}
	iff, ok := lastIf(pred)
	if !ok {
		return
	}
	taken := si == 0
	var visit func(c ssa.Value, truth bool)
	visit = func(c ssa.Value, truth bool) {
		switch x := c.(type) {
		case *ssa.UnOp:
			if x.Op == token.NOT {
				visit(x.X, !truth)
			}
		case *ssa.Call:
			o := calleeObj(&x.Call)
			if o == nil || o.Pkg() == nil || o.Pkg().Path() != "strings" || !truth {
				return
			}
			if o.Name() == "HasSuffix" || o.Name() == "HasPrefix" {
				s, k := x.Call.Args[0], x.Call.Args[1]
				if ks, ok := constString(k); ok {
					if len(ks) > lbs[s] {
						lbs[s] = len(ks)
					}
				} else {
					geqs = append(geqs, [2]ssa.Value{s, k})
				}
			}
		case *ssa.BinOp:
			// len(x) OP c   or   c OP len(x)
			var lx ssa.Value
			var c int64
			op := x.Op
			if a, ok := lenArg(x.X); ok {
				if k, ok := constInt(x.Y); ok {
					lx, c = a, k
				}
			} else if a, ok := lenArg(x.Y); ok {
				if k, ok := constInt(x.X); ok {
					lx, c = a, k
					switch op {
					case token.LSS:
						op = token.GTR
					case token.LEQ:
						op = token.GEQ
					case token.GTR:
						op = token.LSS
					case token.GEQ:
						op = token.LEQ
					}
				}
			}
			if lx == nil {
				return
			}
			lb := -1
			switch {
			case op == token.GTR && truth:
				lb = int(c) + 1
			case op == token.GEQ && truth:
				lb = int(c)
			case op == token.LSS && !truth:
				lb = int(c)
			case op == token.LEQ && !truth:
				lb = int(c) + 1
			case op == token.EQL && truth:
				lb = int(c)
			case op == token.NEQ && !truth:
				lb = int(c)
			case op == token.NEQ && truth && c == 0, op == token.EQL && !truth && c == 0:
				lb = 1
			}
			if lb > lbs[lx] {
				lbs[lx] = lb
			}
		}
	}
	visit(iff.Cond, taken)
	return
}

func newLenFacts(fn *ssa.Function) *lenFacts {
	lf := &lenFacts{fn: fn, in: map[*ssa.BasicBlock]map[ssa.Value]int{}, geq: map[*ssa.BasicBlock]map[[2]ssa.Value]bool{}}
	// optimistic fixpoint: unvisited = ⊤ (no constraint known yet), join = min / intersection
	visited := map[*ssa.BasicBlock]bool{}
	if len(fn.Blocks) == 0 {
		return lf
	}
	lf.in[fn.Blocks[0]] = map[ssa.Value]int{}
	lf.geq[fn.Blocks[0]] = map[[2]ssa.Value]bool{}
	visited[fn.Blocks[0]] = true
	work := []*ssa.BasicBlock{fn.Blocks[0]}
	for len(work) > 0 {
		b := work[0]
		work = work[1:]
		for si, s := range b.Succs {
			out := map[ssa.Value]int{}
			for k, v := range lf.in[b] {
				out[k] = v
			}
			outG := map[[2]ssa.Value]bool{}
			for k := range lf.geq[b] {
				outG[k] = true
			}
			lbs, gs := edgeFacts(b, si)
			for k, v := range lbs {
				if v > out[k] {
					out[k] = v
				}
			}
			for _, g := range gs {
				outG[g] = true
			}
			changed := false
			if !visited[s] {
				visited[s] = true
				lf.in[s], lf.geq[s] = out, outG
				changed = true
			} else {
				cur := lf.in[s]
				for k, v := range cur {
					nv := out[k]
					if nv < v {
						cur[k] = nv
						changed = true
					}
				}
				for k := range lf.geq[s] {
					if !outG[k] {
						delete(lf.geq[s], k)
						changed = true
					}
				}
			}
			if changed {
				work = append(work, s)
			}
		}
	}
	return lf
}

// lb: a lower bound of len(v) that holds whenever block b executes.
func (lf *lenFacts) lb(v ssa.Value, b *ssa.BasicBlock, depth int) int {
	best := 0
	if m := lf.in[b]; m != nil {
		best = m[v]
	}
	if depth > 8 {
		return best
	}
	d := 0
	switch x := v.(type) {
	case *ssa.Const:
		if s, ok := constString(x); ok {
			d = len(s)
		}
	case *ssa.Slice:
		// x[lo:] with constant lo keeps len-lo; x[:hi] unknown
		if x.High == nil && x.Max == nil {
			lo := int64(0)
			okLo := x.Low == nil
			if x.Low != nil {
				lo, okLo = constInt(x.Low)
			}
			if okLo {
				if inst, ok := x.X.(ssa.Instruction); ok {
					d = lf.lb(x.X, inst.Block(), depth+1) - int(lo)
				} else {
					d = lf.lb(x.X, x.Block(), depth+1) - int(lo)
				}
				// facts about x.X known where the slice is taken also count
				if alt := lf.lb(x.X, x.Block(), depth+1) - int(lo); alt > d {
					d = alt
				}
			}
		}
	case *ssa.Phi:
		d = lbTop
		for i, e := range x.Edges {
			pred := x.Block().Preds[i]
			// the bound of e at the end of pred, refined by the edge pred→phi block
			ev := lf.lb(e, pred, depth+1)
			for si, s := range pred.Succs {
				if s == x.Block() {
					lbs, _ := edgeFacts(pred, si)
					if lbs[e] > ev {
						ev = lbs[e]
					}
				}
			}
			if ev < d {
				d = ev
			}
		}
		if d == lbTop {
			d = 0
		}
	case *ssa.Convert:
		// []rune(s), []byte(s): a non-empty string gives a non-empty slice ([]byte keeps the length)
		if basicKind(x.X.Type()) == types.String {
			src := lf.lb(x.X, x.Block(), depth+1)
			if sl, ok := x.Type().Underlying().(*types.Slice); ok {
				if basicKind(sl.Elem()) == types.Uint8 {
					d = src
				} else if src >= 1 {
					d = 1
				}
			}
		}
	case *ssa.ChangeType:
		d = lf.lb(x.X, b, depth+1)
	}
	if d > best {
		best = d
	}
	return best
}

func (lf *lenFacts) geqLen(x, y ssa.Value, b *ssa.BasicBlock) bool {
	return lf.geq[b] != nil && lf.geq[b][[2]ssa.Value{x, y}]
}

// minusLen: v = len(x) − c (c constant ≥ 0) or len(x) − len(y); returns x and either c or y.
func minusLen(v ssa.Value) (x ssa.Value, c int64, y ssa.Value, ok bool) {
	bo, isBo := v.(*ssa.BinOp)
	if !isBo || bo.Op != token.SUB {
		if a, isLen := lenArg(v); isLen {
			return a, 0, nil, true
		}
		return nil, 0, nil, false
	}
	a, isLen := lenArg(bo.X)
	if !isLen {
		return nil, 0, nil, false
	}
	if k, isC := constInt(bo.Y); isC && k >= 0 {
		return a, k, nil, true
	}
	if yy, isLen2 := lenArg(bo.Y); isLen2 {
		return a, 0, yy, true
	}
	return nil, 0, nil, false
}

// discharge decides one index/slice instruction. Returns ok and the argument.
func (lf *lenFacts) discharge(in ssa.Instruction) (bool, string) {
	b := in.Block()
	within := func(idx ssa.Value, x ssa.Value, strict bool) (bool, string) {
		// 0 <= idx (< or <=) len(x)
		if k, ok := constInt(idx); ok {
			need := int(k)
			if strict {
				need++
			}
			if k >= 0 && lf.lb(x, b, 0) >= need {
				return true, fmt.Sprintf("len ≥ %d is established on every path", need)
			}
			return false, fmt.Sprintf("needs len ≥ %d, established only ≥ %d", need, lf.lb(x, b, 0))
		}
		if xx, c, y, ok := minusLen(idx); ok && xx == x {
			if y != nil {
				if tc, ok := y.(*ssa.Call); ok {
					if o := calleeObj(&tc.Call); o != nil && o.Pkg() != nil && o.Pkg().Path() == "strings" && strings.HasPrefix(o.Name(), "Trim") && len(tc.Call.Args) > 0 && tc.Call.Args[0] == x {
						return true, "a trimmed copy is never longer than the string it was cut from"
					}
				}
				if lf.geqLen(x, y, b) {
					return true, "behind strings.HasSuffix/HasPrefix of the same operand"
				}
				return false, "len(x)−len(y) with no HasSuffix/HasPrefix(x, y) on the path"
			}
			if strict && c < 1 {
				return false, "index len(x) is out of range"
			}
			if lf.lb(x, b, 0) >= int(c) {
				return true, fmt.Sprintf("len ≥ %d is established on every path", c)
			}
			return false, fmt.Sprintf("needs len ≥ %d, established only ≥ %d", c, lf.lb(x, b, 0))
		}
		return false, "index is not a constant or len(x)−c"
	}
	switch x := in.(type) {
	case *ssa.IndexAddr:
		return within(x.Index, x.X, true)
	case *ssa.Index:
		return within(x.Index, x.X, true)
	case *ssa.Lookup:
		if basicKind(x.X.Type()) == types.String {
			return within(x.Index, x.X, true)
		}
	case *ssa.Slice:
		okL, okH := true, true
		why := ""
		if x.Low != nil {
			okL, why = within(x.Low, x.X, false)
		}
		if okL && x.High != nil {
			okH, why = within(x.High, x.X, false)
		}
		if okL && okH {
			// low ≤ high: both ends are len−c forms or one is absent
			if x.Low != nil && x.High != nil {
				return false, "both bounds given: low ≤ high not decided"
			}
			if why == "" {
				why = "full slice"
			}
			return true, why
		}
		return false, why
	}
	return false, "unrecognised bounds-checked instruction"
}

// clampedWindow: runes[i:end] with end = min(i+size, len), i < len on the path, size > 0 on the path.
// guardedWindow: x[i : i+c] (c a positive constant) where i is a counter that starts at a non-negative constant and
// grows by one, on the true edge of `i + (c-1) < len(x)` (or `i + c <= len(x)`) that dominates the slice.
func (lf *lenFacts) guardedWindow(sl *ssa.Slice) (bool, string) {
	if sl.Low == nil || sl.High == nil {
		return false, ""
	}
	add, ok := sl.High.(*ssa.BinOp)
	if !ok || add.Op != token.ADD || add.X != sl.Low {
		return false, ""
	}
	c, ok := constInt(add.Y)
	if !ok || c <= 0 {
		return false, ""
	}
	if !isIncrementing(sl.Low) {
		return false, "lower bound is not a counter that grows from a constant"
	}
	if lb := intBound(sl.Low, nil, nil, false, 0); lb < 0 {
		return false, "lower bound may be negative"
	}
	for _, d := range lf.fn.Blocks {
		if !d.Dominates(sl.Block()) {
			continue
		}
		iff, ok := lastIf(d)
		if !ok {
			continue
		}
		bo, ok := iff.Cond.(*ssa.BinOp)
		if !ok {
			continue
		}
		onTrue := len(d.Succs) == 2 && len(d.Succs[0].Preds) == 1 && (d.Succs[0] == sl.Block() || d.Succs[0].Dominates(sl.Block()))
		if !onTrue {
			continue
		}
		a, isLen := lenArg(bo.Y)
		if !isLen || a != sl.X {
			continue
		}
		// left side: i + k
		k := int64(0)
		lhs := bo.X
		if l, ok := lhs.(*ssa.BinOp); ok && l.Op == token.ADD && l.X == sl.Low {
			if kk, ok := constInt(l.Y); ok {
				k = kk
			} else {
				continue
			}
		} else if lhs != sl.Low {
			continue
		}
		if (bo.Op == token.LSS && k >= c-1) || (bo.Op == token.LEQ && k >= c) {
			return true, fmt.Sprintf("window [i:i+%d] on the true edge of i+%d %s len(x), i a non-negative counter", c, k, bo.Op)
		}
	}
	return false, "no dominating guard i+c-1 < len(x)"
}

func (lf *lenFacts) clampedWindow(sl *ssa.Slice) (bool, string) {
	if sl.Low == nil || sl.High == nil {
		return false, ""
	}
	var cands []ssa.Value
	viaMin := false
	if hi, ok := sl.High.(*ssa.Phi); ok && len(hi.Edges) == 2 {
		cands = hi.Edges
	} else if mc, ok := sl.High.(*ssa.Call); ok {
		// the clamp written with the builtin: end := min(low+size, len(x))
		if bi, isB := mc.Call.Value.(*ssa.Builtin); isB && bi.Name() == "min" && len(mc.Call.Args) == 2 {
			cands, viaMin = mc.Call.Args, true
		}
	}
	if len(cands) != 2 {
		return false, ""
	}
	var ln, ext ssa.Value
	for _, e := range cands {
		if a, isLen := lenArg(e); isLen && a == sl.X {
			ln = e
		} else {
			ext = e
		}
	}
	if ln == nil || ext == nil {
		return false, ""
	}
	add, ok := ext.(*ssa.BinOp)
	if !ok || add.Op != token.ADD || add.X != sl.Low {
		return false, "upper bound is not low+size clamped to len"
	}
	// ext is used un-clamped only on the false edge of ext > len
	cmpOK := viaMin
	for _, ref := range *ext.Referrers() {
		if bo, ok := ref.(*ssa.BinOp); ok && bo.Op == token.GTR && bo.X == ext {
			if a, isLen := lenArg(bo.Y); isLen && a == sl.X {
				cmpOK = true
			}
		}
	}
	if !cmpOK {
		return false, "no `end > len` clamp"
	}
	// low < len on a dominating true edge; size > 0 on a dominating edge
	lowOK, sizeOK := false, false
	for _, d := range lf.fn.Blocks {
		if !d.Dominates(sl.Block()) {
			continue
		}
		iff, ok := lastIf(d)
		if !ok {
			continue
		}
		bo, ok := iff.Cond.(*ssa.BinOp)
		if !ok {
			continue
		}
		succOnPath := func(i int) bool {
			s := d.Succs[i]
			return len(s.Preds) == 1 && (s == sl.Block() || s.Dominates(sl.Block()))
		}
		if bo.Op == token.LSS && bo.X == sl.Low && succOnPath(0) {
			if a, isLen := lenArg(bo.Y); isLen && a == sl.X {
				lowOK = true
			}
		}
	}
	// size > 0: some comparison `size <= 0` whose false edge dominates (possibly as part of an || chain)
	size := add.Y
	for _, d := range lf.fn.Blocks {
		iff, ok := lastIf(d)
		if !ok || !d.Dominates(sl.Block()) {
			continue
		}
		bo, ok := iff.Cond.(*ssa.BinOp)
		if !ok {
			continue
		}
		// size−overlap step or the size itself
		cands := []ssa.Value{size}
		if s2, ok := size.(*ssa.BinOp); ok && s2.Op == token.SUB {
			cands = append(cands, s2.X)
		}
		for _, cnd := range cands {
			if bo.Op == token.LEQ && bo.X == cnd {
				if k, ok := constInt(bo.Y); ok && k == 0 {
					s := d.Succs[1]
					if s == sl.Block() || s.Dominates(sl.Block()) {
						sizeOK = true
					}
				}
			}
		}
	}
	if lowOK && sizeOK {
		return true, "window [i : min(i+size, len)] with i < len and size > 0 on the path"
	}
	return false, fmt.Sprintf("clamped window, but low<len on path: %v, size>0 on path: %v", lowOK, sizeOK)
}

// sliceExceptions: expressions neither the compiler nor the idioms above discharge, confirmed by reading.
var sliceExceptions = map[string]string{
	"evaluateBooleanFilter:filter[:opIndex]":         "opIndex is the second result of findFilterOperator(filter), which returns either (\"\", -1) — tested for just above — or an index i of its own scan loop over filter: 0 <= i < len(filter)",
	"evaluateBooleanFilter:filter[opIndex+len(op):]": "findFilterOperator returns op = filter[i:i+2] (taken under i+1 < len(filter)) or filter[i:i+1] together with that i: opIndex+len(op) <= len(filter)",
	"getItalianRegions:runes[i-1]":                   "second region loop starts at i = r1, and r1 is either len(runes) (loop body never runs) or an index+1 ≥ 2 found by the first loop: i ≥ 1 whenever the body runs",
	"nodeSortLabel:m[:idx]":                          "idx is strings.IndexByte(m, '\\n') of the very string that is cut, tested > 0 on the path: an index into m",
	"step3_final_vowels:newS[:len(newS)-1]":          "newS is s minus its final byte and the branch is entered only when s ends in \"chi\"/\"ghi\": len(newS) ≥ 2",
}

func ruleGRDslice(w *World, r *Report) {
	r.Doc("GRD-slice", "every index and slice expression in the tokeniser, stemmers, compressor, splitter and chunker is in bounds on every path: the compiler's prove pass eliminates its bounds check, or a length lower bound from the code's own idioms (HasSuffix/HasPrefix on the true edge, len comparisons, constant re-slicing, []rune of a non-empty string, the clamped window of the chunker) covers it, or it is one of the table exceptions argued by hand", 15)
	files := map[string]bool{}
	pkgArgs := []string{"./" + taPkg, "./" + textPkg, "./" + ragPkg, "./pkg/core", "./pkg/engine", "./internal/server"}
	// of pkg/core only the request-driven filter parser (strings that come straight from a request); of pkg/engine and
	// internal/server the two helpers that index or cut request-supplied values (a metadata list, a stored content string)
	coreFuncs := map[string]bool{"evaluateBooleanFilter": true, "findFilterOperator": true, "FindIDsByFilter": true}
	scoped := map[string]map[string]bool{"pkg/core": coreFuncs, "pkg/engine": {"processAutoLinks": true}, "internal/server": {"nodeSortLabel": true}}
	for _, rel := range []string{taPkg, textPkg} {
		if p := w.Pkg(rel); p != nil {
			for _, f := range p.Syntax {
				name := w.Fset.Position(f.Pos()).Filename
				if !strings.HasSuffix(name, "_test.go") {
					if relf, err := filepath.Rel(w.Repo, name); err == nil {
						files[filepath.ToSlash(relf)] = true
					}
				}
			}
		}
	}
	files[ragPkg+"/splitter.go"] = true
	files["pkg/core/core.go"] = true
	files["pkg/engine/ops.go"] = true
	files["internal/server/http_handlers.go"] = true
	sites, err := compilerUnprovenBounds(w, pkgArgs)
	if err != nil {
		r.Und("GRD-slice", "compiler-bce", "", err.Error())
		return
	}
	// index the bounds-checked SSA instructions of those files by position
	type key struct {
		file      string
		line, col int
	}
	byPos := map[key][]ssa.Instruction{}
	fnOf := map[ssa.Instruction]*ssa.Function{}
	total := 0
	for _, rel := range []string{taPkg, textPkg, ragPkg, "pkg/core", "pkg/engine", "internal/server"} {
		for _, fn := range w.pkgSSAFuncs(rel) {
			if only := scoped[rel]; only != nil {
				root := fn
				for root.Parent() != nil {
					root = root.Parent()
				}
				if !only[root.Name()] {
					continue
				}
			}
			for _, b := range fn.Blocks {
				for _, in := range b.Instrs {
					switch in.(type) {
					case *ssa.IndexAddr, *ssa.Index, *ssa.Slice, *ssa.Lookup:
					default:
						continue
					}
					if lk, ok := in.(*ssa.Lookup); ok && basicKind(lk.X.Type()) != types.String {
						continue
					}
					p := w.Fset.Position(in.Pos())
					relf, err := filepath.Rel(w.Repo, p.Filename)
					if err != nil || !files[filepath.ToSlash(relf)] {
						continue
					}
					total++
					k := key{filepath.ToSlash(relf), p.Line, p.Column}
					byPos[k] = append(byPos[k], in)
					fnOf[in] = fn
				}
			}
		}
	}
	r.Count("bounds_checked_expressions", total)
	facts := map[*ssa.Function]*lenFacts{}
	n, proved := 0, 0
	var rest []bceSite
	for _, s := range sites {
		if files[s.file] {
			rest = append(rest, s)
		}
	}
	sort.Slice(rest, func(i, j int) bool {
		if rest[i].file != rest[j].file {
			return rest[i].file < rest[j].file
		}
		if rest[i].line != rest[j].line {
			return rest[i].line < rest[j].line
		}
		return rest[i].col < rest[j].col
	})
	perFn := map[string]int{}
	for _, s := range rest {
		ins := byPos[key{s.file, s.line, s.col}]
		pos := fmt.Sprintf("%s:%d", s.file, s.line)
		if len(ins) == 0 && (s.file == "pkg/core/core.go" || s.file == "pkg/engine/ops.go" || s.file == "internal/server/http_handlers.go") {
			continue // outside the scoped functions of that file: not in scope
		}
		if len(ins) == 0 {
			r.Und("GRD-slice", fmt.Sprintf("unmapped:%s", filepath.Base(s.file)), pos, fmt.Sprintf("the compiler reports an unproven %s at column %d that does not map to an index/slice instruction", s.kind, s.col))
			continue
		}
		for _, in := range ins {
			fn := fnOf[in]
			if facts[fn] == nil {
				facts[fn] = newLenFacts(fn)
			}
			n++
			expr := exprAt(w, in.Pos())
			short := fn.Name() + ":" + expr
			perFn[short]++
			cons := short
			if perFn[short] > 1 {
				cons = fmt.Sprintf("%s#%d", short, perFn[short])
			}
			ok, why := facts[fn].discharge(in)
			if !ok {
				if sl, isSl := in.(*ssa.Slice); isSl {
					if ok2, why2 := facts[fn].clampedWindow(sl); ok2 {
						ok, why = true, why2
					} else if ok3, why3 := facts[fn].guardedWindow(sl); ok3 {
						ok, why = true, why3
					} else if why2 != "" {
						why = why2
					}
				}
			}
			if !ok {
				if reason, isExc := sliceExceptions[short]; isExc {
					r.Ok("GRD-slice", cons, pos, "exception: "+reason)
					r.Except(short + ": " + reason)
					continue
				}
				r.Bad("GRD-slice", cons, pos, fmt.Sprintf("%s: the bounds check of %s is proven neither by the compiler nor by a length guard on the path (%s): an input that reaches it with a shorter string panics (index/slice out of range) instead of being analysed", fn.Name(), expr, why))
				continue
			}
			proved++
			r.Ok("GRD-slice", cons, pos, why)
		}
	}
	r.Count("compiler_unproven_bounds_checks", n)
	r.Count("discharged_by_length_idioms", proved)
	r.Ok("GRD-slice", "compiler-proved", "", fmt.Sprintf("%d of %d bounds-checked expressions need no run-time check according to the compiler's prove pass", total-n, total))
}

// exprAt: source text of the index/slice expression whose '[' is at pos.
func exprAt(w *World, pos token.Pos) string {
	p := w.Fset.Position(pos)
	for _, pk := range w.Pkgs {
		for _, f := range pk.Syntax {
			if w.Fset.Position(f.Pos()).Filename != p.Filename {
				continue
			}
			out := ""
			ast.Inspect(f, func(n ast.Node) bool {
				switch x := n.(type) {
				case *ast.IndexExpr:
					if x.Lbrack == pos {
						out = strings.ReplaceAll(types.ExprString(x), " ", "")
					}
				case *ast.SliceExpr:
					if x.Lbrack == pos {
						out = strings.ReplaceAll(types.ExprString(x), " ", "")
					}
				}
				return out == ""
			})
			if out != "" {
				return out
			}
		}
	}
	return fmt.Sprintf("expr@%d:%d", p.Line, p.Column)
}
