package main

import (
	"go/ast"
	"go/types"
	"sort"
	"strings"
)

// ---------------------------------------------------------------------------------------------------------------
// LCK-copy: a lock is never copied.
// `for _, shard := range db.graphShards` over an ARRAY of structs copies every element — the loop then locks the copy of
// the mutex while it works on the maps the copy still shares with the original: no exclusion at all, and a copy taken
// while the original was locked stays locked for ever. (go vet's copylocks knows this too; the project does not run it,
// and this rule is stated per lock-holding type of the module so that it cannot pass vacuously.)
// ---------------------------------------------------------------------------------------------------------------
func ruleLCKcopy(w *World, r *Report) {
	r.Doc("LCK-copy", "no value of a module struct type that holds a sync.Mutex / sync.RWMutex (directly, in an embedded struct or in an array) is copied: not by the value variable of a range loop, not by an assignment or variable initialisation from an addressable expression, not by passing or returning it by value", 20)
	var holdsLock func(t types.Type, depth int) bool
	holdsLock = func(t types.Type, depth int) bool {
		if depth > 6 {
			return false
		}
		if n, ok := t.(*types.Named); ok && n.Obj().Pkg() != nil && n.Obj().Pkg().Path() == "sync" {
			switch n.Obj().Name() {
			case "Mutex", "RWMutex":
				return true
			}
		}
		switch u := t.Underlying().(type) {
		case *types.Struct:
			for i := 0; i < u.NumFields(); i++ {
				if holdsLock(u.Field(i).Type(), depth+1) {
					return true
				}
			}
		case *types.Array:
			return holdsLock(u.Elem(), depth+1)
		}
		return false
	}
	// the lock-holding named types of the module
	lockTypes := map[string]bool{}
	for _, p := range w.Pkgs {
		if !strings.HasPrefix(p.PkgPath, modPath) {
			continue
		}
		sc := p.Types.Scope()
		for _, name := range sc.Names() {
			tn, ok := sc.Lookup(name).(*types.TypeName)
			if !ok || tn.IsAlias() {
				continue
			}
			if _, isStruct := tn.Type().Underlying().(*types.Struct); isStruct && holdsLock(tn.Type(), 0) {
				lockTypes[strings.TrimPrefix(strings.TrimPrefix(p.PkgPath, modPath), "/")+"."+name] = true
			}
		}
	}
	typeKey := func(t types.Type) string {
		for {
			switch u := t.(type) {
			case *types.Named:
				if u.Obj().Pkg() == nil {
					return u.Obj().Name()
				}
				return strings.TrimPrefix(strings.TrimPrefix(u.Obj().Pkg().Path(), modPath), "/") + "." + u.Obj().Name()
			case *types.Array:
				t = u.Elem()
				continue
			}
			return t.String()
		}
	}
	copies := map[string][]string{} // type -> where
	note := func(t types.Type, pos ast.Node, how string) {
		if t == nil || !holdsLock(t, 0) {
			return
		}
		if _, isPtr := t.Underlying().(*types.Pointer); isPtr {
			return
		}
		copies[typeKey(t)] = append(copies[typeKey(t)], w.Pos(pos.Pos())+" ("+how+")")
	}
	addressable := func(e ast.Expr) bool { // an existing variable, field, element or pointee — not a fresh value
		for {
			switch x := e.(type) {
			case *ast.ParenExpr:
				e = x.X
				continue
			case *ast.Ident:
				return x.Name != "_" && x.Name != "nil"
			case *ast.SelectorExpr, *ast.IndexExpr, *ast.StarExpr:
				return true
			}
			return false
		}
	}
	for _, p := range w.Pkgs {
		if !strings.HasPrefix(p.PkgPath, modPath) {
			continue
		}
		info := p.TypesInfo
		for _, f := range p.Syntax {
			if strings.HasSuffix(w.Fset.Position(f.Pos()).Filename, "_test.go") {
				continue
			}
			ast.Inspect(f, func(n ast.Node) bool {
				switch x := n.(type) {
				case *ast.RangeStmt:
					if id, ok := x.Value.(*ast.Ident); ok && id.Name != "_" {
						if obj := info.ObjectOf(id); obj != nil {
							note(obj.Type(), x, "range value")
						}
					}
				case *ast.AssignStmt:
					for i, rhs := range x.Rhs {
						if len(x.Lhs) == len(x.Rhs) && addressable(rhs) {
							if id, ok := x.Lhs[i].(*ast.Ident); ok && id.Name == "_" {
								continue
							}
							note(info.TypeOf(rhs), x, "assignment")
						}
					}
				case *ast.ValueSpec:
					for _, v := range x.Values {
						if addressable(v) {
							note(info.TypeOf(v), x, "variable initialisation")
						}
					}
				case *ast.CallExpr:
					if tv, ok := info.Types[x.Fun]; ok && tv.IsType() {
						return true // a conversion
					}
					for _, a := range x.Args {
						if addressable(a) {
							note(info.TypeOf(a), a, "argument passed by value")
						}
					}
				case *ast.ReturnStmt:
					for _, v := range x.Results {
						if addressable(v) {
							note(info.TypeOf(v), v, "returned by value")
						}
					}
				}
				return true
			})
		}
	}
	var names []string
	for n := range lockTypes {
		names = append(names, n)
	}
	for n := range copies {
		if !lockTypes[n] {
			names = append(names, n)
		}
	}
	sort.Strings(names)
	for _, n := range names {
		where := copies[n]
		sort.Strings(where)
		show := where
		if len(show) > 4 {
			show = show[:4]
		}
		r.Cond(len(where) == 0, "LCK-copy", "type:"+n+":never-copied", "", "no copy of a value of this type", "a value of "+n+" — which holds a mutex — is copied at "+strings.Join(show, ", ")+": the copy has a mutex of its own (in the state the original had at that instant) but shares every map, slice and pointer with the original, so code that locks the copy excludes nobody, and a copy taken while the original was locked can never be locked again")
	}
}
