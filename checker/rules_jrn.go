package main

// rules_jrn.go — JRN: durable-state effects, journaling and layering over the resolved program.

import (
	"fmt"
	"go/token"
	"go/types"
	"sort"
	"strings"

	"golang.org/x/tools/go/ssa"
)

// sinks: functions that mutate durable in-memory state (state that a restart must reproduce).
var sinkSpecs = []struct{ pkg, name string }{
	{"pkg/core", "KVStore.Set"}, {"pkg/core", "KVStore.Delete"},
	{"pkg/core", "DB.CreateVectorIndex"}, {"pkg/core", "DB.DeleteVectorIndex"},
	{"pkg/core", "DB.AddMetadata"}, {"pkg/core", "DB.AddMetadataUnlocked"}, {"pkg/core", "DB.DeleteMetadata"},
	{"pkg/core", "DB.AddEdge"}, {"pkg/core", "DB.RemoveEdge"}, {"pkg/core", "DB.Compress"}, {"pkg/core", "DB.RemoveGraphNodesWithPrefix"},
	{"pkg/core", "VectorIndex.Add"}, {"pkg/core", "VectorIndex.Delete"},
	{"pkg/core/hnsw", "Index.Add"}, {"pkg/core/hnsw", "Index.AddBatch"}, {"pkg/core/hnsw", "Index.AddBatchFast"}, {"pkg/core/hnsw", "Index.Delete"},
	{"pkg/core/hnsw", "Index.SetAutoLinks"}, {"pkg/core/hnsw", "Index.SetMemoryConfig"}, {"pkg/core/hnsw", "Index.UpdateMaintenanceConfig"},
}

func (w *World) sinkSet(r *Report, rule string) map[*types.Func]string {
	out := map[*types.Func]string{}
	for _, s := range sinkSpecs {
		var f *types.Func
		if strings.HasPrefix(s.name, "VectorIndex.") {
			// interface method
			if p := w.Pkg(s.pkg); p != nil {
				if o := p.Types.Scope().Lookup("VectorIndex"); o != nil {
					if it, ok := o.Type().Underlying().(*types.Interface); ok {
						for i := 0; i < it.NumMethods(); i++ {
							if it.Method(i).Name() == strings.TrimPrefix(s.name, "VectorIndex.") {
								f = it.Method(i)
							}
						}
					}
				}
			}
		} else {
			f = w.FuncObj(s.pkg, s.name)
		}
		if f == nil {
			r.Und(rule, "anchor:sink:"+s.name, "", "anchor lost: durable-state mutator "+s.pkg+"."+s.name+" not found (renamed?)")
			continue
		}
		out[f] = s.name
	}
	return out
}

func (w *World) journalObj() *types.Func { return w.FuncObj("pkg/persistence", "LazyAOFWriter.Write") }

// replaySet: functions that legitimately mutate state without journaling (they ARE the recovery).
func isReplayOrRestore(f *types.Func) bool {
	switch shortName(f) {
	case "Engine.replayAOF", "DB.LoadFromSnapshot", "Index.LoadSnapshotData":
		return true
	}
	return false
}

// isReplayOrRestore, with the helpers that were extracted out of the recovery functions: an unexported function whose
// every static caller in the module is (transitively) a recovery function is part of the recovery.
func (w *World) isReplayOrRestore(f *types.Func) bool {
	if isReplayOrRestore(f) {
		return true
	}
	fn := w.SSAFunc(f)
	if fn == nil || f.Exported() {
		return false
	}
	seen := map[*ssa.Function]bool{}
	var all func(g *ssa.Function, depth int) bool
	all = func(g *ssa.Function, depth int) bool {
		if depth > 3 || seen[g] {
			return false
		}
		seen[g] = true
		callers := w.staticCallersOf(g)
		if len(callers) == 0 {
			return false
		}
		for c := range callers {
			for c.Parent() != nil {
				c = c.Parent()
			}
			co, _ := c.Object().(*types.Func)
			if co == nil {
				return false
			}
			if isReplayOrRestore(co) {
				continue
			}
			if co.Exported() || !all(c, depth+1) {
				return false
			}
		}
		return true
	}
	return all(fn, 0)
}

// staticCallersOf: the module functions (or function literals) that call fn statically. A function whose value is
// taken anywhere (stored, passed) gets the pseudo caller nil-free marker "escapes" by returning an extra, exported-looking
// caller is not needed: extractedHelpers and isReplayOrRestore only ask for unexported direct callees.
func (w *World) staticCallersOf(fn *ssa.Function) map[*ssa.Function]bool {
	if w.callers == nil {
		w.callers = map[*ssa.Function]map[*ssa.Function]bool{}
		for _, fi := range w.ModuleFuncs() {
			top := w.SSAFunc(fi.Obj)
			if top == nil {
				continue
			}
			for _, f := range append([]*ssa.Function{top}, closuresOf(top)...) {
				for _, b := range f.Blocks {
					for _, in := range b.Instrs {
						cc := callCommon(in)
						if cc == nil {
							continue
						}
						if g := cc.StaticCallee(); g != nil {
							if w.callers[g] == nil {
								w.callers[g] = map[*ssa.Function]bool{}
							}
							w.callers[g][f] = true
						}
					}
				}
			}
		}
	}
	return w.callers[fn]
}

// helperDecls: the declarations of the helpers extracted from fi (see extractedHelpers), for the rules that read syntax.
func (w *World) helperDecls(fi *FuncInfo) []*FuncInfo {
	top := w.SSAFunc(fi.Obj)
	if top == nil {
		return nil
	}
	var out []*FuncInfo
	for _, h := range w.extractedHelpers(top) {
		if o, ok := h.Object().(*types.Func); ok {
			if d := w.Decl(o); d != nil && d.Decl.Body != nil {
				out = append(out, d)
			}
		}
	}
	return out
}

// extractedHelpers: the unexported functions of fn's own package that fn (or a function literal of it) calls statically
// and that nobody else calls — blocks that a clean-up commit moved out of fn. Rules that read "what fn does" read them
// as part of fn. Two levels.
func (w *World) extractedHelpers(fn *ssa.Function) []*ssa.Function {
	var out []*ssa.Function
	seen := map[*ssa.Function]bool{fn: true}
	var rec func(f *ssa.Function, depth int)
	rec = func(f *ssa.Function, depth int) {
		for _, g := range append([]*ssa.Function{f}, closuresOf(f)...) {
			for _, b := range g.Blocks {
				for _, in := range b.Instrs {
					cc := callCommon(in)
					if cc == nil {
						continue
					}
					h := cc.StaticCallee()
					if h == nil || seen[h] || h.Pkg != fn.Pkg || len(h.Blocks) == 0 || h.Parent() != nil {
						continue
					}
					if o, _ := h.Object().(*types.Func); o == nil || o.Exported() {
						continue
					}
					only := true
					for c := range w.staticCallersOf(h) {
						for c.Parent() != nil {
							c = c.Parent()
						}
						if c != fn && !seen[c] {
							only = false
						}
					}
					if !only {
						continue
					}
					seen[h] = true
					out = append(out, h)
					if depth < 1 {
						rec(h, depth+1)
					}
				}
			}
		}
	}
	rec(fn, 0)
	return out
}

type sinkCall struct {
	fi   *FuncInfo
	fn   *ssa.Function // function or closure containing the call
	call ssa.Instruction
	sink string
	inGo bool
}

// directSinkCalls lists every call site of a sink in module functions outside the storage layers.
func (w *World) directSinkCalls(r *Report, rule string) []sinkCall {
	sinks := w.sinkSet(r, rule)
	var out []sinkCall
	for _, fi := range w.ModuleFuncs() {
		rp := relPkg(fi.Obj)
		if strings.HasPrefix(rp, "pkg/core") || rp == "pkg/persistence" || strings.HasPrefix(rp, "pkg/storage") {
			continue
		}
		fn := w.SSAFunc(fi.Obj)
		if fn == nil {
			continue
		}
		for _, f := range append([]*ssa.Function{fn}, closuresOf(fn)...) {
			for _, b := range f.Blocks {
				for _, in := range b.Instrs {
					c := callCommon(in)
					if c == nil {
						continue
					}
					o := calleeObj(c)
					if o == nil {
						continue
					}
					if nm, ok := sinks[o]; ok {
						out = append(out, sinkCall{fi: fi, fn: f, call: in, sink: nm})
					}
				}
			}
		}
	}
	// interface calls from outside the journaling layer, resolved with VTA: which concrete store
	// actually flows into an interface-typed field (e.g. auth.KV)?
	g := w.VTA()
	for fnode, node := range g.Nodes {
		if fnode == nil || !inModule(fnode) {
			continue
		}
		root := fnode
		for root.Parent() != nil {
			root = root.Parent()
		}
		obj, _ := root.Object().(*types.Func)
		fi := w.Decl(obj)
		if fi == nil {
			continue
		}
		rp := relPkg(fi.Obj)
		if strings.HasPrefix(rp, "pkg/core") || rp == "pkg/persistence" || strings.HasPrefix(rp, "pkg/storage") || rp == "pkg/engine" {
			continue
		}
		for _, e := range node.Out {
			if e.Site == nil || !e.Site.Common().IsInvoke() || e.Callee == nil || e.Callee.Func == nil {
				continue
			}
			co, _ := e.Callee.Func.Object().(*types.Func)
			if co == nil {
				continue
			}
			if nm, ok := sinks[co.Origin()]; ok {
				out = append(out, sinkCall{fi: fi, fn: fnode, call: e.Site, sink: nm + "(via " + e.Site.Common().Method.Name() + " interface call)"})
			}
		}
	}
	sort.SliceStable(out, func(i, j int) bool {
		if a, b := qname(out[i].fi.Obj), qname(out[j].fi.Obj); a != b {
			return a < b
		}
		return out[i].call.Pos() < out[j].call.Pos()
	})
	return out
}

// ---------- JRN-1 / JRN-2 ----------

// journal exceptions: one symbol wide, each with a reason.
var jrn1Exceptions = map[string]string{
	"pkg/engine.(*Engine).VImport": "documented log bypass for bulk import: durability comes from VImportCommit -> SaveSnapshot (checked separately: VImportCommit must reach SaveSnapshot)",
}

func ruleJRN12(w *World, r *Report, scope func(sc sinkCall) bool) {
	f1, f2 := 15, 1
	if scope != nil {
		f1, f2 = 0, 0
	}
	r.Doc("JRN-1", "every call of a durable-state mutator outside the storage layers and the recovery code is preceded, on every path, by a successful journal write in the same function (journal-before-apply)", f1)
	r.Doc("JRN-2", "durable-state mutators are called only from pkg/engine (the journaling layer); any other caller is an unjournaled write path", f2)
	jw := w.journalObj()
	if jw == nil {
		r.Und("JRN-1", "anchor:LazyAOFWriter.Write", "", "anchor lost")
		return
	}
	calls := w.directSinkCalls(r, "JRN-1")
	r.Count("sink_call_sites", len(calls))
	perFn := map[string]int{}
	for _, sc := range calls {
		if scope != nil && !scope(sc) {
			continue
		}
		q := qname(sc.fi.Obj)
		perFn[q+"|"+sc.sink]++
		key := fmt.Sprintf("%s->%s#%d", q, sc.sink, perFn[q+"|"+sc.sink])
		rp := relPkg(sc.fi.Obj)
		// JRN-2 layering
		if rp != "pkg/engine" {
			r.Bad("JRN-2", key, w.Pos(sc.call.Pos()), fmt.Sprintf("%s mutates durable state (%s) from outside pkg/engine: the change is never journaled and is lost on restart unless a snapshot happens to follow", q, sc.sink))
			continue
		}
		r.Ok("JRN-2", key, w.Pos(sc.call.Pos()), "called from the journaling layer")
		if w.isReplayOrRestore(sc.fi.Obj) {
			r.Ok("JRN-1", key, w.Pos(sc.call.Pos()), "recovery code (applies the journal itself)")
			continue
		}
		if why, ok := jrn1Exceptions[q]; ok {
			r.Ok("JRN-1", key, w.Pos(sc.call.Pos()), "exception: "+why)
			r.Except(q + ": " + why)
			continue
		}
		// journal-before-apply in the function that contains the call (closure bodies: the journal
		// write may also be in the enclosing function before the closure is created)
		journal := callsTo(jw)
		journalOK := func(f *ssa.Function, at ssa.Instruction) (bool, []ssa.Instruction) {
			return precedesWithSuccess(f, journal, func(in ssa.Instruction) bool { return in == at })
		}
		ok, wit := journalOK(sc.fn, sc.call)
		if !ok {
			// (b) journal-after-apply: every path from the mutation to a successful return journals
			nres := sc.fn.Signature.Results().Len()
			if nres > 0 && isErrorType(sc.fn.Signature.Results().At(nres-1).Type()) {
				found, _ := (pathQuery{fn: sc.fn, target: func(in ssa.Instruction) bool {
					rt, ok := in.(*ssa.Return)
					return ok && !definitelyError(retVal(rt, nres-1))
				}, avoid: journal}).find(posOf(sc.call))
				if !found {
					ok = true
				}
			}
		}
		if !ok {
			// (d) the change has no log representation and is committed by a snapshot instead:
			// every path from the mutation to a possibly-successful return passes SaveSnapshot.
			if ss := w.FuncObj("pkg/engine", "Engine.SaveSnapshot"); ss != nil {
				nres := sc.fn.Signature.Results().Len()
				if nres > 0 && isErrorType(sc.fn.Signature.Results().At(nres-1).Type()) {
					blockedF := map[edgeKey]bool{}
					if c, isCall := sc.call.(*ssa.Call); isCall {
						blockedF = failureEdges(sc.fn, c)
					}
					found, _ := (pathQuery{fn: sc.fn, target: func(in ssa.Instruction) bool {
						rt, ok := in.(*ssa.Return)
						return ok && !definitelyError(retVal(rt, nres-1))
					}, avoid: callsTo(ss), blocked: blockedF}).find(posOf(sc.call))
					if !found && len(findInstrs(sc.fn, callsTo(ss))) > 0 {
						ok = true
					}
				}
			}
		}
		if !ok {
			// (c) the journal write sits in a loop over the batch that entirely precedes the mutation:
			// a zero-iteration pass journals nothing and applies nothing.
			for _, jn := range findInstrs(sc.fn, journal) {
				if h := loopHeader(jn.Block()); h != nil && h.Dominates(sc.call.Block()) && !blockReaches(sc.call.Block(), h) {
					// leaving the loop through the journal's failure edge must not reach the mutation
					bad := false
					for e := range failureEdges(sc.fn, jn.(*ssa.Call)) {
						if f2, _ := (pathQuery{fn: sc.fn, target: func(in ssa.Instruction) bool { return in == sc.call }}).find(ipos{e.from.Succs[e.succ], -1}); f2 {
							bad = true
						}
					}
					if !bad {
						ok = true
					}
				}
			}
		}
		if !ok && sc.fn.Parent() != nil {
			// closure: accept if the closure's creation site in the parent is preceded by a journal write
			par := sc.fn.Parent()
			for _, mk := range findInstrs(par, func(in ssa.Instruction) bool {
				mc, isMC := in.(*ssa.MakeClosure)
				return isMC && mc.Fn == sc.fn
			}) {
				if ok2, _ := journalOK(par, mk); ok2 {
					ok = true
				}
			}
		}
		if !ok && sc.fn.Parent() == nil {
			// (e) the apply phase is a function of its own: every call of it is preceded by a successful journal write, or by
			// the successful call of the journaling phase
			ok = phaseJournaled(w, sc.fn, journal, 0)
		}
		r.Cond(ok, "JRN-1", key, w.Pos(sc.call.Pos()), "journal write precedes the mutation on every path",
			fmt.Sprintf("%s applies %s to memory on a path with no preceding successful journal write: the change is observable now but gone after restart", q, sc.sink), w.witness(wit)...)
	}
	if scope != nil {
		r.Ok("JRN-2", "scoped:no-direct-store-writes", "", "no function in the scoped packages calls a durable-state mutator directly (interface calls resolved with VTA)")
		return
	}
	// the exception's own obligation
	if fi := w.Func("pkg/engine", "Engine.VImportCommit"); fi != nil {
		ss := w.FuncObj("pkg/engine", "Engine.SaveSnapshot")
		fn := w.SSAFunc(fi.Obj)
		found, wit := (pathQuery{fn: fn, target: func(in ssa.Instruction) bool {
			rt, ok := in.(*ssa.Return)
			return ok && len(rt.Results) == 1 && isNilConst(retVal(rt, 0))
		}, avoid: callsTo(ss)}).find(entryPos(fn))
		r.Cond(!found, "JRN-1", "VImportCommit-reaches-SaveSnapshot", w.Pos(fi.Decl.Pos()), "every successful return of VImportCommit passed SaveSnapshot", "VImportCommit can report success without SaveSnapshot: imported vectors (which bypass the log) are not durable", w.witness(wit)...)
	} else {
		r.Und("JRN-1", "anchor:Engine.VImportCommit", "", "anchor lost")
	}
}

// journalingPhase: h reports an error, contains a journal write, and cannot return success without having journaled —
// or journals inside a loop over a batch (a pass over no items journals nothing, and there is nothing to apply then).
func journalingPhase(h *ssa.Function, journal func(ssa.Instruction) bool) bool {
	if h == nil || len(h.Blocks) == 0 || !inModule(h) {
		return false
	}
	nres := h.Signature.Results().Len()
	if nres == 0 || !isErrorType(h.Signature.Results().At(nres-1).Type()) {
		return false
	}
	js := findInstrs(h, journal)
	if len(js) == 0 {
		return false
	}
	for _, j := range js { // a failed write is reported
		for e := range failureEdges(h, j.(*ssa.Call)) {
			if found, _ := (pathQuery{fn: h, target: func(in ssa.Instruction) bool {
				rt, ok := in.(*ssa.Return)
				return ok && !definitelyError(retVal(rt, nres-1))
			}}).find(ipos{e.from.Succs[e.succ], -1}); found {
				return false
			}
		}
	}
	if alwaysPerforms(h, journal) {
		return true
	}
	for _, j := range js {
		if loopHeader(j.Block()) == nil {
			return false
		}
	}
	return true
}

func phaseJournaled(w *World, f *ssa.Function, journal func(ssa.Instruction) bool, depth int) bool {
	if depth > 2 {
		return false
	}
	if o, _ := f.Object().(*types.Func); o == nil || o.Exported() {
		return false
	}
	n := 0
	for g := range w.staticCallersOf(f) {
		pred := func(in ssa.Instruction) bool {
			if journal(in) {
				return true
			}
			c, ok := in.(*ssa.Call)
			return ok && c.Call.StaticCallee() != nil && c.Call.StaticCallee() != f && journalingPhase(c.Call.StaticCallee(), journal)
		}
		for _, b := range g.Blocks {
			for _, in := range b.Instrs {
				cc := callCommon(in)
				if cc == nil || cc.StaticCallee() != f {
					continue
				}
				if _, isCall := in.(*ssa.Call); !isCall {
					return false
				}
				n++
				at := in
				if ok, _ := precedesWithSuccess(g, pred, func(x ssa.Instruction) bool { return x == at }); ok {
					continue
				}
				if g.Parent() == nil && phaseJournaled(w, g, journal, depth+1) {
					continue
				}
				return false
			}
		}
	}
	return n > 0
}

// ---------- JRN-3 effect-then-error ----------

// jrn3Exceptions: one (operation, error origin) wide, each with the reason the late rejection cannot take effect.
var jrn3Exceptions = map[string]string{
	"Engine.VSetMetadata:DB.AddMetadata": "DB.AddMetadata fails only with 'index not found', i.e. after a concurrent VDeleteIndex; that drop's VDROP is in the same log, and replay ignores a VMETA for a dropped/unknown index, so the rejected update never takes effect later",
}

// ruleJRN3: in each journaling operation, after a successful journal write no path returns a non-nil
// error (the command is in the log, so it WILL take effect on restart even though the caller was told
// it failed), unless the returned error is the journal write's own error.
func ruleJRN3(w *World, r *Report) {
	r.Doc("JRN-3", "in every journaling engine operation no path returns a non-nil error after a successful journal write (a rejected request must not be in the log)", 9)
	jw := w.journalObj()
	flush := w.FuncObj("pkg/persistence", "LazyAOFWriter.Flush")
	if jw == nil {
		r.Und("JRN-3", "anchor:LazyAOFWriter.Write", "", "anchor lost")
		return
	}
	// a phase of an operation that was moved into a function of its own (an unexported function that only the operation
	// calls) is read as part of the operation: its journal write is the operation's, its errors are the operation's, and
	// the obligations keep the operation's name
	rootOf := map[*ssa.Function]*ssa.Function{}
	for _, fi := range w.ModuleFuncs() {
		if relPkg(fi.Obj) != "pkg/engine" {
			continue
		}
		if g := w.SSAFunc(fi.Obj); g != nil {
			for _, h := range w.extractedHelpers(g) {
				if _, ok := rootOf[h]; !ok {
					rootOf[h] = g
				}
			}
		}
	}
	root := func(f *ssa.Function) *ssa.Function {
		for i := 0; i < 4; i++ {
			g, ok := rootOf[f]
			if !ok {
				break
			}
			f = g
		}
		return f
	}
	journalsIn := func(h *ssa.Function) []ssa.Instruction { // the journal writes of helper h and of its own helpers
		out := findInstrs(h, callsTo(jw))
		for g, rt := range rootOf {
			if rt == h {
				out = append(out, findInstrs(g, callsTo(jw))...)
			}
		}
		return out
	}
	isJournal := func(fn *ssa.Function) func(ssa.Instruction) bool {
		return func(in ssa.Instruction) bool {
			if callsTo(jw)(in) {
				return true
			}
			c, ok := in.(*ssa.Call)
			if !ok || c.Call.StaticCallee() == nil {
				return false
			}
			h := c.Call.StaticCallee()
			return rootOf[h] == fn && len(journalsIn(h)) > 0
		}
	}
	var ops []*FuncInfo
	for _, fi := range w.ModuleFuncs() {
		if relPkg(fi.Obj) != "pkg/engine" || w.isReplayOrRestore(fi.Obj) {
			continue
		}
		sig := fi.Obj.Type().(*types.Signature)
		if sig.Results().Len() == 0 || !isErrorType(sig.Results().At(sig.Results().Len()-1).Type()) {
			continue
		}
		fn := w.SSAFunc(fi.Obj)
		if fn == nil || len(findInstrs(fn, isJournal(fn))) == 0 {
			continue
		}
		rt := root(fn)
		switch shortFn(rt) {
		case "Engine.saveSnapshotLocked", "Engine.RewriteAOF", "Engine.SaveSnapshot":
			continue // administrative protocols: decided by ORD-1/2/4
		}
		if ro, _ := rt.Object().(*types.Func); ro != nil && w.isReplayOrRestore(ro) {
			continue
		}
		ops = append(ops, fi)
	}
	sort.Slice(ops, func(i, j int) bool { return qname(ops[i].Obj) < qname(ops[j].Obj) })
	nroots := map[*ssa.Function]bool{}
	for _, fi := range ops {
		nroots[root(w.SSAFunc(fi.Obj))] = true
	}
	r.Count("journaling_operations", len(nroots))
	// the origins of an error that a phase helper returns are the origins inside the helper
	var expand func(fn *ssa.Function, src errOrigin, depth int) []errOrigin
	expand = func(fn *ssa.Function, src errOrigin, depth int) []errOrigin {
		if src.obj == nil || depth > 2 {
			return []errOrigin{src}
		}
		h := w.SSAFunc(src.obj)
		if h == nil || root(h) != root(fn) || h == fn || rootOf[h] == nil {
			return []errOrigin{src}
		}
		all := map[*ssa.BasicBlock]bool{}
		for _, b := range h.Blocks {
			all[b] = true
		}
		hres := h.Signature.Results().Len()
		var out []errOrigin
		for _, b := range h.Blocks {
			rt, ok := b.Instrs[len(b.Instrs)-1].(*ssa.Return)
			if !ok || len(rt.Results) != hres || hres == 0 {
				continue
			}
			for _, o := range errorOrigins(retVal(rt, hres-1), b, all, nil, map[ssa.Value]bool{}) {
				out = append(out, expand(h, o, depth+1)...)
			}
		}
		// a helper whose errors are all its own (a validator that refuses with messages of its own) is named itself
		named := false
		for _, o := range out {
			if o.obj != nil {
				named = true
			}
		}
		if !named {
			return []errOrigin{src}
		}
		return out
	}
	seenKey := map[string]bool{}
	rootSeen := map[*ssa.Function]bool{}
	for _, fi := range ops {
		fn := w.SSAFunc(fi.Obj)
		q := shortFn(root(fn))
		nres := fi.Obj.Type().(*types.Signature).Results().Len()
		rootSeen[root(fn)] = true
		for _, j := range findInstrs(fn, isJournal(fn)) {
			jc := j.(*ssa.Call)
			cmdName := ""
			if callsTo(jw)(j) {
				cmdName = journaledCommand(jc)
			} else {
				names := map[string]bool{}
				for _, hj := range journalsIn(jc.Call.StaticCallee()) {
					names[journaledCommand(hj.(*ssa.Call))] = true
				}
				var ns []string
				for n := range names {
					ns = append(ns, n)
				}
				sort.Strings(ns)
				cmdName = strings.Join(ns, "+")
			}
			fail := failureEdges(fn, jc)
			reach := reachableBlocks(fn, posOf(j), fail)
			for _, b := range fn.Blocks {
				if !reach[b] {
					continue
				}
				rt, ok := b.Instrs[len(b.Instrs)-1].(*ssa.Return)
				if !ok || len(rt.Results) != nres {
					continue
				}
				if b == j.Block() && !after(rt, j) {
					continue
				}
				for _, src0 := range errorOrigins(retVal(rt, nres-1), b, reach, j, map[ssa.Value]bool{}) {
					for _, src := range expand(fn, src0, 0) {
						if flush != nil && src.obj == flush {
							continue // a failing Flush is a durability report, not a rejection of the request
						}
						if src.obj == jw {
							continue
						}
						key := fmt.Sprintf("%s:error-after-journal[%s]:%s", q, cmdName, src.name)
						if why, ok := jrn3Exceptions[q+":"+src.name]; ok {
							if !seenKey[key] {
								r.Ok("JRN-3", key, w.Pos(src.pos), "exception: "+why)
								r.Except(q + ":" + src.name + ": " + why)
							}
							seenKey[key] = true
							continue
						}
						if seenKey[key] {
							continue
						}
						seenKey[key] = true
						r.Bad("JRN-3", key, w.Pos(src.pos), fmt.Sprintf("%s can return the error of %s AFTER its %s command was journaled: the caller sees a rejection, but the command is in the log and takes effect on the next restart", q, src.name, cmdName), w.Pos(j.Pos()), w.Pos(rt.Pos()))
					}
				}
			}
		}
	}
	for rt := range rootSeen {
		q := shortFn(rt)
		any := false
		for k := range seenKey {
			if strings.HasPrefix(k, q+":error-after-journal[") {
				any = true
			}
		}
		if !any {
			r.Ok("JRN-3", q+":no-error-after-journal", w.Pos(rt.Pos()), "no rejection can be returned once a command was journaled")
		}
	}
}

// journaledCommand: the constant command name of the frame handed to the journal write (FormatCommand("NAME", …)),
// followed through phis and single-assignment locals; "?" when it is not a constant.
func journaledCommand(jc *ssa.Call) string {
	names := map[string]bool{}
	seen := map[ssa.Value]bool{}
	var rec func(v ssa.Value, depth int)
	rec = func(v ssa.Value, depth int) {
		if v == nil || seen[v] || depth > 8 {
			return
		}
		seen[v] = true
		switch x := v.(type) {
		case *ssa.Call:
			if o := calleeObj(&x.Call); o != nil && o.Name() == "FormatCommand" && len(x.Call.Args) > 0 {
				if s, ok := constString(x.Call.Args[0]); ok {
					names[s] = true
					return
				}
			}
			names["?"] = true
		case *ssa.Phi:
			for _, e := range x.Edges {
				rec(e, depth+1)
			}
		case *ssa.UnOp:
			if al, ok := x.X.(*ssa.Alloc); ok {
				for _, ref := range *al.Referrers() {
					if st, ok := ref.(*ssa.Store); ok && st.Addr == al {
						rec(st.Val, depth+1)
					}
				}
				return
			}
			names["?"] = true
		default:
			names["?"] = true
		}
	}
	if len(jc.Call.Args) > 0 {
		rec(jc.Call.Args[len(jc.Call.Args)-1], 0)
	}
	var out []string
	for n := range names {
		out = append(out, n)
	}
	sort.Strings(out)
	if len(out) == 0 {
		return "?"
	}
	return strings.Join(out, "+")
}

type errOrigin struct {
	name string
	obj  *types.Func
	pos  token.Pos
}

// reachableBlocks: blocks reachable from just after `from`, never taking a blocked edge. The start
// block counts as reachable only for instructions after `from`.
func reachableBlocks(fn *ssa.Function, from ipos, blocked map[edgeKey]bool) map[*ssa.BasicBlock]bool {
	seen := map[*ssa.BasicBlock]bool{from.b: true}
	queue := []*ssa.BasicBlock{from.b}
	first := true
	for len(queue) > 0 {
		b := queue[0]
		queue = queue[1:]
		_ = first
		for si, s := range b.Succs {
			if blocked[edgeKey{b, si}] {
				continue
			}
			if !seen[s] {
				seen[s] = true
				queue = append(queue, s)
			}
		}
	}
	return seen
}

// errorOrigins: the calls / constructed errors whose value can be the returned error, considering
// only phi edges that come from blocks reachable after the journal write and only definitions made
// after it (a value defined before the journal write was tested before: it is nil here).
func errorOrigins(v ssa.Value, at *ssa.BasicBlock, reach map[*ssa.BasicBlock]bool, j ssa.Instruction, seen map[ssa.Value]bool) []errOrigin {
	if v == nil || seen[v] {
		return nil
	}
	seen[v] = true
	definedAfter := func(in ssa.Instruction) bool {
		if j == nil { // (the whole function counts: the errors a phase helper can return)
			return true
		}
		if in.Block() == j.Block() {
			return after(in, j)
		}
		return reach[in.Block()]
	}
	switch x := v.(type) {
	case *ssa.Const:
		return nil
	case *ssa.Phi:
		var out []errOrigin
		for i, e := range x.Edges {
			if reach[x.Block().Preds[i]] {
				out = append(out, errorOrigins(e, x.Block(), reach, j, seen)...)
			}
		}
		return out
	case *ssa.Call:
		if !definedAfter(x) {
			return nil
		}
		o := calleeObj(&x.Call)
		if o != nil && o.Pkg() != nil && (o.Pkg().Path() == "fmt" && o.Name() == "Errorf" || o.Pkg().Path() == "errors" && o.Name() == "New") {
			// wrapped error: origin is the wrapped value if any, else the message
			var inner []errOrigin
			for _, a := range x.Call.Args {
				inner = append(inner, wrappedOrigins(a, reach, j, seen)...)
			}
			if len(inner) > 0 {
				return inner
			}
			msg := "constructed error"
			if len(x.Call.Args) > 0 {
				if s, ok := constString(x.Call.Args[0]); ok {
					msg = "error:" + strings.ReplaceAll(firstWords(s, 4), " ", "_")
				}
			}
			return []errOrigin{{name: msg, pos: x.Pos()}}
		}
		if o != nil {
			return []errOrigin{{name: shortName(o), obj: o, pos: x.Pos()}}
		}
		return []errOrigin{{name: "dynamic call", pos: x.Pos()}}
	case *ssa.Extract:
		return errorOrigins(x.Tuple, at, reach, j, seen)
	case *ssa.MakeInterface:
		if !definedAfter(x) {
			return nil
		}
		return []errOrigin{{name: "constructed error", pos: x.Pos()}}
	case *ssa.UnOp:
		var out []errOrigin
		if al, ok := x.X.(*ssa.Alloc); ok {
			for _, ref := range *al.Referrers() {
				if st, ok := ref.(*ssa.Store); ok && st.Addr == al && definedAfter(st) {
					out = append(out, errorOrigins(st.Val, st.Block(), reach, j, seen)...)
				}
			}
			return out
		}
		return []errOrigin{{name: "loaded error value", pos: x.Pos()}}
	}
	return []errOrigin{{name: fmt.Sprintf("%T", v), pos: v.Pos()}}
}

func wrappedOrigins(a ssa.Value, reach map[*ssa.BasicBlock]bool, j ssa.Instruction, seen map[ssa.Value]bool) []errOrigin {
	// variadic ...any: slice of alloc with stored MakeInterface(error)
	var out []errOrigin
	if sl, ok := a.(*ssa.Slice); ok {
		if al, ok := sl.X.(*ssa.Alloc); ok {
			for _, ref := range *al.Referrers() {
				if ia, ok := ref.(*ssa.IndexAddr); ok {
					for _, r2 := range *ia.Referrers() {
						if st, ok := r2.(*ssa.Store); ok {
							val := st.Val
							if mi, ok := val.(*ssa.MakeInterface); ok {
								val = mi.X
							}
							if ci, ok := val.(*ssa.ChangeInterface); ok {
								val = ci.X
							}
							if isErrorType(val.Type()) {
								out = append(out, errorOrigins(val, st.Block(), reach, j, seen)...)
							}
						}
					}
				}
			}
		}
	}
	return out
}

func firstWords(s string, n int) string {
	f := strings.Fields(s)
	if len(f) > n {
		f = f[:n]
	}
	return strings.Join(f, " ")
}

// derivesFromCallAny: value is (an extract of) a call to f, possibly through phis where some edge is.
func derivesFromCallAny(v ssa.Value, f *types.Func, depth int) bool {
	if depth > 6 || v == nil {
		return false
	}
	switch x := v.(type) {
	case *ssa.Call:
		if calleeObj(&x.Call) == f {
			return true
		}
		// fmt.Errorf("...%w", err) wrapping
		if o := calleeObj(&x.Call); o != nil && o.Pkg() != nil && o.Pkg().Path() == "fmt" && o.Name() == "Errorf" {
			for _, a := range x.Call.Args {
				if derivesFromCallAny(a, f, depth+1) {
					return true
				}
			}
		}
	case *ssa.Extract:
		return derivesFromCallAny(x.Tuple, f, depth+1)
	case *ssa.Slice:
		return derivesFromCallAny(x.X, f, depth+1)
	case *ssa.Alloc:
		for _, ref := range *x.Referrers() {
			if ia, ok := ref.(*ssa.IndexAddr); ok {
				for _, r2 := range *ia.Referrers() {
					if st, ok := r2.(*ssa.Store); ok && derivesFromCallAny(st.Val, f, depth+1) {
						return true
					}
				}
			}
		}
	case *ssa.MakeInterface:
		return derivesFromCallAny(x.X, f, depth+1)
	case *ssa.ChangeInterface:
		return derivesFromCallAny(x.X, f, depth+1)
	}
	return false
}

// errorSources lists the non-nil origins of an error value (calls, constructed errors).
func errorSources(v ssa.Value, seen map[ssa.Value]bool) []string {
	if v == nil || seen[v] {
		return nil
	}
	seen[v] = true
	switch x := v.(type) {
	case *ssa.Const:
		return nil
	case *ssa.Phi:
		var out []string
		for _, e := range x.Edges {
			out = append(out, errorSources(e, seen)...)
		}
		return out
	case *ssa.Call:
		if o := calleeObj(&x.Call); o != nil {
			return []string{"result of " + shortName(o)}
		}
		return []string{"result of a call"}
	case *ssa.Extract:
		return errorSources(x.Tuple, seen)
	case *ssa.MakeInterface:
		return []string{"constructed error"}
	case *ssa.UnOp:
		// load of a variable: find stores
		var out []string
		if al, ok := x.X.(*ssa.Alloc); ok {
			for _, ref := range *al.Referrers() {
				if st, ok := ref.(*ssa.Store); ok && st.Addr == al {
					out = append(out, errorSources(st.Val, seen)...)
				}
			}
			return out
		}
		return []string{"loaded error value"}
	}
	return []string{fmt.Sprintf("%T", v)}
}

// loopHeader: the innermost block that dominates b and is reachable from b (natural-loop header), or nil.
func loopHeader(b *ssa.BasicBlock) *ssa.BasicBlock {
	for h := b; h != nil; h = h.Idom() {
		for _, p := range h.Preds {
			if h.Dominates(p) && (p == b || blockReaches(b, p)) {
				return h
			}
		}
	}
	return nil
}

func blockReaches(from, to *ssa.BasicBlock) bool {
	seen := map[*ssa.BasicBlock]bool{}
	var rec func(b *ssa.BasicBlock) bool
	rec = func(b *ssa.BasicBlock) bool {
		for _, s := range b.Succs {
			if s == to {
				return true
			}
			if !seen[s] {
				seen[s] = true
				if rec(s) {
					return true
				}
			}
		}
		return false
	}
	return rec(from)
}

// definitelyError: the value is a freshly constructed, non-nil error on every path.
func definitelyError(v ssa.Value) bool {
	switch x := v.(type) {
	case *ssa.MakeInterface:
		return true
	case *ssa.Call:
		if o := calleeObj(&x.Call); o != nil && o.Pkg() != nil {
			if o.Pkg().Path() == "fmt" && o.Name() == "Errorf" || o.Pkg().Path() == "errors" && o.Name() == "New" {
				return true
			}
		}
	case *ssa.Phi:
		for _, e := range x.Edges {
			if !definitelyError(e) {
				return false
			}
		}
		return len(x.Edges) > 0
	}
	return false
}

// ---------- EFF-composite: an operation built from several journaled operations is undone when a later step rejects ----------

// ruleEFFcomposite: an engine function that strings several journaling operations together (VEvolve: add the new
// node, copy edges, link old→new, mark the old node) journals each step on its own; there is no transaction. If a
// later step can still reject the request, the earlier ones have taken effect — now and after a restart. The shape
// that keeps "a rejected operation changes nothing": after the first step succeeded, every return of a non-nil error
// lies behind a compensating delete/unlink.
func ruleEFFcomposite(w *World, r *Report) {
	r.Doc("EFF-composite", "in an engine function that calls several journaling operations and can return an error, every error return that is reachable after one of those calls succeeded lies behind the call that undoes that very step (VAdd→VDelete of the same id, VLink→VUnlink, KVSet→KVDelete, VCreate→VDeleteIndex); after a step that changes a record in place (VSetMetadata, VReinforce, VUnlink, VDelete) no error return is reachable at all", 1)
	ops := map[*types.Func]bool{}
	for _, fi := range w.journalingOps() {
		ops[fi.Obj] = true
	}
	comp := map[string]bool{"Engine.VDelete": true, "Engine.VUnlink": true, "Engine.KVDelete": true, "Engine.VDeleteIndex": true}
	isOp := func(in ssa.Instruction) bool {
		c, ok := in.(*ssa.Call)
		if !ok {
			return false
		}
		o := calleeObj(&c.Call)
		return o != nil && ops[o] && !comp[shortName(o)]
	}
	isComp := func(in ssa.Instruction) bool {
		c, ok := in.(*ssa.Call)
		if !ok {
			return false
		}
		o := calleeObj(&c.Call)
		return o != nil && comp[shortName(o)]
	}
	n := 0
	for _, fi := range w.ModuleFuncs() {
		if relPkg(fi.Obj) != "pkg/engine" || ops[fi.Obj] || w.isReplayOrRestore(fi.Obj) {
			continue
		}
		sig := fi.Obj.Type().(*types.Signature)
		nres := sig.Results().Len()
		if nres == 0 || !isErrorType(sig.Results().At(nres-1).Type()) {
			continue
		}
		fn := w.SSAFunc(fi.Obj)
		if fn == nil {
			continue
		}
		steps := findInstrs(fn, isOp)
		if len(steps) < 2 {
			continue
		}
		n++
		name := shortName(fi.Obj)
		errReturn := func(in ssa.Instruction) bool {
			rt, ok := in.(*ssa.Return)
			return ok && len(rt.Results) == nres && !isNilConst(retVal(rt, nres-1))
		}
		for i, m := range steps {
			c := m.(*ssa.Call)
			blocked := map[edgeKey]bool{}
			if len(errValues(c)) > 0 {
				blocked = failureEdges(fn, c)
			}
			// what undoes this step: a step that CREATES something is undone by deleting that very thing (same id
			// argument); a step that changes something in place (metadata merge, reinforce, unlink, delete) cannot be
			// undone at all, so no error return may follow it
			callee := shortName(calleeObj(&c.Call))
			undoneBy := map[string]string{"Engine.VAdd": "Engine.VDelete", "Engine.VAddBatch": "Engine.VDelete", "Engine.VLink": "Engine.VUnlink", "Engine.KVSet": "Engine.KVDelete", "Engine.VCreate": "Engine.VDeleteIndex"}[callee]
			avoid := func(in ssa.Instruction) bool {
				if undoneBy == "" || !isComp(in) {
					return false
				}
				cc := in.(*ssa.Call)
				if callee == "Engine.VLink" && shortName(calleeObj(&cc.Call)) == "Engine.VDelete" && len(cc.Call.Args) > 2 && len(c.Call.Args) > 3 {
					// deleting one endpoint removes the edge with it (the delete cascade)
					return sameVal(cc.Call.Args[2], c.Call.Args[2]) || sameVal(cc.Call.Args[2], c.Call.Args[3])
				}
				if shortName(calleeObj(&cc.Call)) != undoneBy {
					return false
				}
				// the thing deleted is the thing created: index and id arguments are the same values
				for k := 1; k <= 2 && k < len(cc.Call.Args) && k < len(c.Call.Args); k++ {
					if isStringType(cc.Call.Args[k].Type()) && isStringType(c.Call.Args[k].Type()) && !sameVal(cc.Call.Args[k], c.Call.Args[k]) {
						return false
					}
				}
				return true
			}
			found, wit := pathQuery{fn: fn, target: errReturn, avoid: avoid, blocked: blocked}.find(posOf(m))
			r.Cond(!found, "EFF-composite", fmt.Sprintf("%s:step#%d:%s:later-rejection-is-undone", name, i+1, callee), w.Pos(m.Pos()), "every error return after this step succeeded lies behind the call that undoes this very step (none exists for a step that changes a record in place: then no error return follows it)", name+" can return an error after its step "+callee+" has already taken effect (and was journaled) without undoing it (deleting some OTHER node does not undo it): the caller sees a rejected request, but part of it is in the database now and after every restart — for instance edges that point at the id of a node that was never created", w.witness(wit)...)
		}
	}
	r.Count("composite_operations", n)
	if n == 0 {
		r.Ok("EFF-composite", "no-composite-operation", "", "no engine function strings several journaling operations together")
	}
}

// ---------- EFF-readd: nobody "updates" a record by adding it again ----------

// ruleEFFreadd: VAdd rejects an id that exists — after it has journaled the command (the known JRN-3 finding). A
// function that has just fetched a record with VGet and then calls VAdd with the same index and id is therefore always
// rejected, and the rejected VADD still replaces the record at the next restart. Updates go through VSetMetadata, or
// through VDelete followed by VAdd.
func ruleEFFreadd(w *World, r *Report) {
	r.Doc("EFF-readd", "no function calls Engine.VAdd with the index and id of a record it has just fetched successfully with Engine.VGet, unless a VDelete of that id lies in between: such a call is always rejected as a duplicate, and its journaled record takes effect at the next restart", 1)
	vadd := w.FuncObj("pkg/engine", "Engine.VAdd")
	vget := w.FuncObj("pkg/engine", "Engine.VGet")
	vdel := w.FuncObj("pkg/engine", "Engine.VDelete")
	if vadd == nil || vget == nil {
		r.Und("EFF-readd", "anchor:Engine.VAdd/VGet", "", "anchor lost")
		return
	}
	n := 0
	for _, fi := range w.ModuleFuncs() {
		root := w.SSAFunc(fi.Obj)
		if root == nil || isTestFile(w.Fset, fi.Decl.Pos()) {
			continue
		}
		for _, f := range append([]*ssa.Function{root}, closuresOf(root)...) {
			adds := findInstrs(f, callsTo(vadd))
			gets := findInstrs(f, callsTo(vget))
			if len(adds) == 0 || len(gets) == 0 {
				continue
			}
			for i, a := range adds {
				ac := a.(*ssa.Call)
				for _, g := range gets {
					gc := g.(*ssa.Call)
					if len(ac.Call.Args) < 3 || len(gc.Call.Args) < 3 || !sameVal(ac.Call.Args[1], gc.Call.Args[1]) || !sameVal(ac.Call.Args[2], gc.Call.Args[2]) {
						continue
					}
					n++
					aa := a
					isDel := func(x ssa.Instruction) bool {
						c, ok := x.(*ssa.Call)
						return ok && vdel != nil && calleeObj(&c.Call) == vdel
					}
					// a path over the failure edge of an update of the same record (VSetMetadata said "not found") is the
					// legitimate create-if-missing idiom: the record is known NOT to exist there
					blocked := failureEdges(f, gc)
					if vset := w.FuncObj("pkg/engine", "Engine.VSetMetadata"); vset != nil {
						for _, sc := range findInstrs(f, callsTo(vset)) {
							c := sc.(*ssa.Call)
							if len(c.Call.Args) >= 3 && sameVal(c.Call.Args[1], ac.Call.Args[1]) && sameVal(c.Call.Args[2], ac.Call.Args[2]) {
								for e := range failureEdges(f, c) {
									blocked[e] = true
								}
							}
						}
					}
					found, wit := pathQuery{fn: f, target: func(x ssa.Instruction) bool { return x == aa }, avoid: isDel, blocked: blocked}.find(posOf(g))
					r.Cond(!found, "EFF-readd", fmt.Sprintf("%s:VAdd#%d:not-a-re-add-of-a-fetched-record", shortName(fi.Obj), i+1), w.Pos(a.Pos()), "the id is not one this function has just fetched (or it was deleted in between)", shortName(fi.Obj)+" fetches a record with VGet and then calls VAdd with the same index and id: the add is always rejected as a duplicate, so the operation never works — and because VAdd journals before the index rejects, the rejected record replaces the stored one at the next restart", w.witness(wit)...)
				}
			}
		}
	}
	if n == 0 {
		r.Ok("EFF-readd", "no-fetch-then-add-of-the-same-id", "", "no function adds an id it has just fetched")
	}
}
