package main

// selftest.go — checker self-validation (thorough tier): each stored mutant is a small rewrite
// of one repository file, held only as go/packages Overlay content (the repository is never
// touched); the property's rules must fire on it, naming the expected rule and construct.
// Mutant outcomes validate the CHECKER; they are never counted as property coverage.

import (
	"bytes"
	"encoding/json"
	"fmt"
	"os"
	"os/exec"
	"path/filepath"
	"regexp"
	"sort"
	"strings"
	"sync"
)

type mutant struct {
	Name   string
	File   string // repo-relative
	Old    string // must occur exactly once in the current file
	New    string
	Rule   string // expected rule; "silent" marks a behaviour-preserving variant on which NO rule may fire
	Constr string // substring expected in the construct
}

// edit: one more file of a variant that spans files; registered per mutant name in moreEdits.
type edit struct {
	File, Old, New string
}

var moreEdits = map[string][]edit{}

var mutants = map[string][]mutant{}

func addMutants(prop string, ms ...mutant) { mutants[prop] = append(mutants[prop], ms...) }

var violRe = regexp.MustCompile(`rule=(\S+) verdict=(\S+) construct=(\S+)`)

func cmdSelftest(args []string) int {
	if len(args) < 1 {
		usage()
	}
	res := runSelftests(args[0], "/repo", defaultVerif())
	killed, _ := res["mutants_killed"].(int)
	total, _ := res["mutants_applicable"].(int)
	for _, d := range res["details"].([]map[string]any) {
		fmt.Printf("%-8s %-40s %s\n", d["outcome"], d["mutant"], d["note"])
	}
	benign, _ := res["benign_variants"].(int)
	quiet, _ := res["benign_variants_quiet"].(int)
	fmt.Printf("selftest %s: killed %d / %d applicable; quiet on %d / %d behaviour-preserving variants\n", args[0], killed, total, quiet, benign)
	if killed < total || quiet < benign {
		return 1
	}
	return 0
}

func runSelftests(prop, repo, verif string) map[string]any {
	ms := mutants[prop]
	if f := os.Getenv("KVLINT_MUTANT_FILTER"); f != "" { // development aid: run only the mutants whose name contains f
		var keep []mutant
		for _, m := range ms {
			for _, alt := range strings.Split(f, "|") {
				if strings.Contains(m.Name, alt) {
					keep = append(keep, m)
					break
				}
			}
		}
		ms = keep
	}
	exe, err := os.Executable()
	if err != nil {
		return map[string]any{"error": err.Error()}
	}
	type result struct {
		m       mutant
		outcome string
		note    string
	}
	results := make([]result, len(ms))
	sem := make(chan struct{}, 4)
	var wg sync.WaitGroup
	for i, m := range ms {
		wg.Add(1)
		go func(i int, m mutant) {
			defer wg.Done()
			sem <- struct{}{}
			defer func() { <-sem }()
			res := result{m: m}
			args := []string{"check", prop, "--tier", "quick", "--no-write", "--repo", repo, "--verif", verif}
			skipped := false
			content := map[string][]byte{} // edits to the same file accumulate
			var order []string
			for _, ed := range append([]edit{{m.File, m.Old, m.New}}, moreEdits[m.Name]...) {
				src, seen := content[ed.File]
				if !seen {
					var err error
					src, err = os.ReadFile(filepath.Join(repo, ed.File))
					if err != nil {
						res.outcome, res.note = "skipped", "file missing"
						skipped = true
						break
					}
					order = append(order, ed.File)
				}
				// "§n/m§pattern": the pattern occurs m times (sibling functions with identical text), edit the n-th
				oldPat, nth, of := ed.Old, 1, 1
				// "§all§identifier": every occurrence of the identifier (as a whole word) is replaced — a rename
				if strings.HasPrefix(oldPat, "§all§") {
					id := strings.TrimPrefix(oldPat, "§all§")
					re := regexp.MustCompile(`\b` + regexp.QuoteMeta(id) + `\b`)
					if !re.Match(src) {
						res.outcome, res.note = "skipped", "identifier does not occur in the current source (source changed)"
						skipped = true
						break
					}
					content[ed.File] = re.ReplaceAll(src, []byte(ed.New))
					continue
				}
				if strings.HasPrefix(oldPat, "§") {
					if _, err := fmt.Sscanf(oldPat, "§%d/%d§", &nth, &of); err == nil {
						oldPat = oldPat[strings.Index(oldPat[2:], "§")+2+len("§"):]
					}
				}
				if bytes.Count(src, []byte(oldPat)) != of {
					res.outcome, res.note = "skipped", "pattern does not occur exactly once in the current source (source changed)"
					skipped = true
					break
				}
				at := 0
				for k := 1; k < nth; k++ {
					at += bytes.Index(src[at:], []byte(oldPat)) + len(oldPat)
				}
				at += bytes.Index(src[at:], []byte(oldPat))
				content[ed.File] = append(append(append([]byte{}, src[:at]...), []byte(ed.New)...), src[at+len(oldPat):]...)
			}
			if !skipped {
				for _, f := range order {
					tmp, err := os.CreateTemp("", "kvlint-mut-*.go")
					if err != nil {
						res.outcome, res.note = "skipped", err.Error()
						skipped = true
						break
					}
					tmp.Write(content[f])
					tmp.Close()
					defer os.Remove(tmp.Name())
					args = append(args, "--overlay", f+"="+tmp.Name())
				}
			}
			if skipped {
				results[i] = res
				return
			}
			cmd := exec.Command(exe, args...)
			out, _ := cmd.CombinedOutput()
			hit := false
			var seen []string
			for _, mm := range violRe.FindAllStringSubmatch(string(out), -1) {
				seen = append(seen, mm[1]+":"+mm[3])
				if mm[1] == m.Rule && strings.Contains(mm[3], m.Constr) {
					hit = true
				}
			}
			if strings.Contains(string(out), "construct=load") || strings.Contains(string(out), "construct=analysis-panic") {
				res.outcome, res.note = "invalid", "mutant does not type-check or analysis failed: "+firstLines(string(out), 6)
			} else if m.Rule == "brittle" {
				// a behaviour-preserving variant that a rule is KNOWN to report today (documented limit of that rule)
				if len(seen) == 0 {
					res.outcome, res.note = "quiet", "behaviour-preserving variant (listed as a known limit): no rule fired"
				} else {
					res.outcome, res.note = "known-limit", fmt.Sprintf("behaviour-preserving variant that the rule is known to report (documented limit): %v", seen)
				}
			} else if m.Rule == "silent" {
				if len(seen) == 0 {
					res.outcome, res.note = "quiet", "behaviour-preserving variant: no rule fired"
				} else {
					res.outcome, res.note = "FALSE-ALARM", fmt.Sprintf("behaviour-preserving variant, but reported: %v", seen)
				}
			} else if hit {
				res.outcome, res.note = "killed", m.Rule+" "+m.Constr
			} else {
				res.outcome, res.note = "SURVIVED", fmt.Sprintf("expected %s on %q; reported: %v", m.Rule, m.Constr, seen)
			}
			results[i] = res
		}(i, m)
	}
	wg.Wait()
	killed, applicable, skipped, benign, quiet, knownLimits := 0, 0, 0, 0, 0, 0
	var details []map[string]any
	for _, r := range results {
		switch r.outcome {
		case "killed":
			killed++
			applicable++
		case "skipped":
			skipped++
		case "quiet":
			benign++
			quiet++
		case "FALSE-ALARM":
			benign++
		case "known-limit":
			knownLimits++
		default:
			applicable++
		}
		details = append(details, map[string]any{"mutant": r.m.Name, "file": r.m.File, "expects": r.m.Rule + " " + r.m.Constr, "outcome": r.outcome, "note": r.note})
	}
	sort.Slice(details, func(i, j int) bool { return details[i]["mutant"].(string) < details[j]["mutant"].(string) })
	return map[string]any{"mutants_total": len(ms), "mutants_applicable": applicable, "mutants_killed": killed, "mutants_skipped": skipped, "benign_variants": benign, "benign_variants_quiet": quiet, "benign_variants_reported_known_limit": knownLimits, "details": details,
		"meaning": "validation of the analyser itself on overlay rewrites of the current source; not property coverage"}
}

func firstLines(s string, n int) string {
	ls := strings.Split(s, "\n")
	if len(ls) > n {
		ls = ls[:n]
	}
	return strings.Join(ls, " | ")
}

// thoroughConfigs re-runs a property's rules under additional build configurations where the
// property's anchors have build-tagged files. Obligations are merged with a config prefix.
func thoroughConfigs(id, repo string, overlay map[string][]byte, r *Report) []string {
	cfgs := extraConfigs[id]
	var ran []string
	for _, c := range cfgs {
		w, err := Load(repo, "thorough", c.tags, overlay, c.env...)
		if err != nil {
			r.Notes = append(r.Notes, fmt.Sprintf("configuration %s not analysable in this sandbox: %v", c.name, err))
			continue
		}
		sub := NewReport(id)
		c.run(w, sub)
		for _, ob := range sub.Obs {
			ob.Construct = c.name + "/" + ob.Construct
			r.Obs = append(r.Obs, ob)
		}
		ran = append(ran, c.name)
	}
	return ran
}

type extraConfig struct {
	name string
	tags string
	env  []string
	run  func(w *World, r *Report)
}

var extraConfigs = map[string][]extraConfig{}

// platformConfigs: properties whose anchors include build-tagged files (pkg/storage/mmap has a unix and a
// windows mapping layer; int is 32 bits on 386) are re-decided under those configurations in the thorough
// tier. The `rust` and `avo` tags cannot be type-checked in this sandbox (cgo library / generated assembly
// stubs are absent), so kernels selected by those tags are outside every claim.
func init() {
	for _, id := range []string{"C13", "C18"} {
		id := id
		run := func(w *World, r *Report) { props[id].Run(w, r) }
		extraConfigs[id] = []extraConfig{
			{name: "windows-amd64", env: []string{"GOOS=windows", "GOARCH=amd64", "CGO_ENABLED=0"}, run: run},
			{name: "linux-386", env: []string{"GOOS=linux", "GOARCH=386", "CGO_ENABLED=0"}, run: run},
		}
	}
}

// runSeeded re-applies every filed seeded change of a property (verif/seeded/<prop>-*/patch.diff, written by
// sub-agents that saw only the property text and confirmed against the real code: the patch compiles, passes the
// repository's suite, and makes a demonstration of the property fail) as an overlay of the current source and expects
// the property's check to report it. A patch that no longer applies to the current source is reported as skipped; a
// seed whose meta.json says a later fix made it harmless ("neutralised") is expected to stay unreported.
func runSeeded(prop, repo, verif string) map[string]any {
	exe, err := os.Executable()
	if err != nil {
		return map[string]any{"error": err.Error()}
	}
	dirs, _ := filepath.Glob(filepath.Join(verif, "seeded", prop+"-*"))
	sort.Strings(dirs)
	var details []map[string]any
	reported, skipped, missed, neutral := 0, 0, 0, 0
	fileRe := regexp.MustCompile(`(?m)^\+\+\+ b/(\S+)`)
	for _, d := range dirs {
		label := filepath.Base(d)
		patch, err := os.ReadFile(filepath.Join(d, "patch.diff"))
		if err != nil {
			continue
		}
		det := map[string]any{"seed": label}
		neutralised := false
		if mb, err := os.ReadFile(filepath.Join(d, "meta.json")); err == nil && bytes.Contains(mb, []byte(`"neutralised"`)) {
			neutralised = true
		}
		tmp, err := os.MkdirTemp("", "kvlint-seed-*")
		if err != nil {
			continue
		}
		args := []string{"check", prop, "--tier", "quick", "--no-write", "--repo", repo, "--verif", verif}
		ok := true
		for _, m := range fileRe.FindAllStringSubmatch(string(patch), -1) {
			rel := m[1]
			dst := filepath.Join(tmp, rel)
			os.MkdirAll(filepath.Dir(dst), 0o755)
			if src, err := os.ReadFile(filepath.Join(repo, rel)); err == nil {
				os.WriteFile(dst, src, 0o644)
			} // else: a file the patch creates (functions moved to a new file of the package)
			if strings.HasSuffix(rel, ".go") {
				args = append(args, "--overlay", rel+"="+dst)
			}
		}
		if ok {
			pc := exec.Command("patch", "-p1", "-s", "-f", "-d", tmp, "-i", filepath.Join(d, "patch.diff"))
			if out, err := pc.CombinedOutput(); err != nil {
				ok = false
				det["note"] = "patch no longer applies to the current source: " + firstLines(string(out), 2)
			}
		}
		if !ok {
			skipped++
			det["outcome"] = "skipped"
			details = append(details, det)
			os.RemoveAll(tmp)
			continue
		}
		out, _ := exec.Command(exe, args...).CombinedOutput()
		os.RemoveAll(tmp)
		var seen []string
		for _, mm := range violRe.FindAllStringSubmatch(string(out), -1) {
			if mm[2] == "violation" || mm[2] == "undecided" {
				seen = append(seen, mm[1]+":"+mm[3])
			}
		}
		sort.Strings(seen)
		switch {
		case strings.Contains(string(out), "construct=load") || strings.Contains(string(out), "construct=analysis-panic"):
			skipped++
			det["outcome"], det["note"] = "skipped", "patched source does not type-check any more"
		case len(seen) > 0:
			reported++
			det["outcome"], det["reports"] = "reported", seen
		case neutralised:
			neutral++
			det["outcome"], det["note"] = "harmless", "a later fix: commit made this change harmless (its demonstration passes with the patch); not expected to be reported"
		default:
			missed++
			det["outcome"] = "MISSED"
		}
		details = append(details, det)
	}
	return map[string]any{"seeded_total": len(dirs), "seeded_reported": reported, "seeded_missed": missed, "seeded_skipped": skipped, "seeded_harmless": neutral, "details": details,
		"meaning": "seeded changes written by sub-agents from the property text alone and confirmed against the real code; re-applied as overlays of the current source. Validation of the analyser, not property coverage"}
}

// runRefactorings re-applies the behaviour-preserving rewrites archived under <verif>/refactorings/ (written by
// sub-agents that saw only the property text, confirmed by the project's test suite and by reading) as overlays of the
// current source: none of them may be reported. A refactoring is replayed under the property it was written for and under
// every property listed in its meta.json "also" (the properties that reported it when it was first swept).
func runRefactorings(prop, repo, verif string) map[string]any {
	exe, err := os.Executable()
	if err != nil {
		return map[string]any{"error": err.Error()}
	}
	dirs, _ := filepath.Glob(filepath.Join(verif, "refactorings", "*"))
	sort.Strings(dirs)
	var details []map[string]any
	total, quiet, alarms, skipped := 0, 0, 0, 0
	fileRe := regexp.MustCompile(`(?m)^\+\+\+ b/(\S+)`)
	for _, d := range dirs {
		label := filepath.Base(d)
		mine := strings.HasPrefix(label, prop+"-")
		if mb, err := os.ReadFile(filepath.Join(d, "meta.json")); err == nil {
			var meta struct {
				Also []string `json:"also"`
			}
			if json.Unmarshal(mb, &meta) == nil {
				for _, a := range meta.Also {
					if a == prop {
						mine = true
					}
				}
			}
		}
		patch, err := os.ReadFile(filepath.Join(d, "patch.diff"))
		if !mine || err != nil {
			continue
		}
		total++
		det := map[string]any{"refactoring": label}
		tmp, err := os.MkdirTemp("", "kvlint-ref-*")
		if err != nil {
			continue
		}
		args := []string{"check", prop, "--tier", "quick", "--no-write", "--repo", repo, "--verif", verif}
		ok := true
		for _, m := range fileRe.FindAllStringSubmatch(string(patch), -1) {
			rel := m[1]
			dst := filepath.Join(tmp, rel)
			os.MkdirAll(filepath.Dir(dst), 0o755)
			if src, err := os.ReadFile(filepath.Join(repo, rel)); err == nil {
				os.WriteFile(dst, src, 0o644)
			} // else: a file the patch creates (functions moved to a new file of the package)
			if strings.HasSuffix(rel, ".go") {
				args = append(args, "--overlay", rel+"="+dst)
			}
		}
		if ok {
			pc := exec.Command("patch", "-p1", "-s", "-f", "-d", tmp, "-i", filepath.Join(d, "patch.diff"))
			if out, err := pc.CombinedOutput(); err != nil {
				ok = false
				det["note"] = "patch no longer applies to the current source: " + firstLines(string(out), 2)
			}
		}
		if !ok {
			skipped++
			det["outcome"] = "skipped"
			details = append(details, det)
			os.RemoveAll(tmp)
			continue
		}
		out, _ := exec.Command(exe, args...).CombinedOutput()
		os.RemoveAll(tmp)
		var seen []string
		for _, mm := range violRe.FindAllStringSubmatch(string(out), -1) {
			if mm[2] == "violation" || mm[2] == "undecided" {
				seen = append(seen, mm[1]+":"+mm[3])
			}
		}
		sort.Strings(seen)
		switch {
		case strings.Contains(string(out), "construct=load") || strings.Contains(string(out), "construct=analysis-panic"):
			skipped++
			det["outcome"], det["note"] = "skipped", "patched source does not type-check any more"
		case len(seen) > 0:
			alarms++
			det["outcome"], det["reports"] = "FALSE-ALARM", seen
		default:
			quiet++
			det["outcome"] = "quiet"
		}
		details = append(details, det)
	}
	return map[string]any{"refactorings_total": total, "refactorings_quiet": quiet, "refactorings_reported": alarms, "refactorings_skipped": skipped, "details": details,
		"meaning": "behaviour-preserving rewrites written by sub-agents from the property text alone (suite passes, read by hand); re-applied as overlays of the current source. None may be reported. Validation of the analyser, not property coverage"}
}
