package main

// rules_cdc.go — CDC: log codec and writer/reader table agreement.

import (
	"fmt"
	"go/ast"
	"go/constant"
	"go/token"
	"go/types"
	"os"
	"sort"
	"strings"

	"golang.org/x/tools/go/ssa"
	"golang.org/x/tools/go/types/typeutil"
)

// ---------- writer table ----------

type writerSite struct {
	Name     string
	Fn       *FuncInfo
	Call     *ast.CallExpr
	Lo, Hi   int      // number of arguments after the command name
	Keys     []string // option keys (VCREATE-style spreads)
	Spread   bool
	Explicit []ast.Expr
}

func (w *World) formatCommandObj() *types.Func { return w.FuncObj("pkg/persistence", "FormatCommand") }

// writerSites enumerates every non-test call of persistence.FormatCommand.
func (w *World) writerSites(r *Report, rule string) []writerSite {
	fc := w.formatCommandObj()
	if fc == nil {
		r.Und(rule, "anchor:persistence.FormatCommand", "", "anchor lost: persistence.FormatCommand not found")
		return nil
	}
	var out []writerSite
	for _, fi := range w.ModuleFuncs() {
		if fi.Decl.Body == nil {
			continue
		}
		ast.Inspect(fi.Decl.Body, func(n ast.Node) bool {
			call, ok := n.(*ast.CallExpr)
			if !ok {
				return true
			}
			if typeutil.StaticCallee(fi.Pkg.TypesInfo, call) != fc {
				return true
			}
			ws := writerSite{Fn: fi, Call: call}
			if len(call.Args) == 0 {
				return true
			}
			tv := fi.Pkg.TypesInfo.Types[call.Args[0]]
			if tv.Value == nil || tv.Value.Kind() != constant.String {
				r.Und(rule, "writer@"+qname(fi.Obj), w.Pos(call.Pos()), "command name is not a constant string")
				return true
			}
			ws.Name = constant.StringVal(tv.Value)
			if call.Ellipsis.IsValid() {
				ws.Spread = true
				id, ok := call.Args[1].(*ast.Ident)
				shapeFn := fi
				if !ok {
					// the argument list is built by a function of its own (`FormatCommand("X", req.recordArgs()...)`) that
					// returns the local list it has put together
					if bc, isCall := call.Args[1].(*ast.CallExpr); isCall {
						if bo := typeutil.StaticCallee(fi.Pkg.TypesInfo, bc); bo != nil {
							if bd := w.Decl(bo); bd != nil && bd.Decl.Body != nil {
								var rets []*ast.Ident
								plain := true
								ast.Inspect(bd.Decl.Body, func(m ast.Node) bool {
									if _, isLit := m.(*ast.FuncLit); isLit {
										return false
									}
									if rs, isRet := m.(*ast.ReturnStmt); isRet {
										if len(rs.Results) == 1 {
											if rid, isId := rs.Results[0].(*ast.Ident); isId {
												rets = append(rets, rid)
												return true
											}
										}
										plain = false
									}
									return true
								})
								if plain && len(rets) > 0 {
									same := true
									for _, rid := range rets {
										if bd.Pkg.TypesInfo.Uses[rid] != bd.Pkg.TypesInfo.Uses[rets[0]] {
											same = false
										}
									}
									if same {
										id, ok, shapeFn = rets[0], true, bd
									}
								}
							}
						}
					}
				}
				if !ok {
					r.Und(rule, "writer:"+ws.Name+"@"+qname(fi.Obj), w.Pos(call.Pos()), "spread argument is not a local variable")
					return true
				}
				lo, hi, keys, ok2 := w.spreadShape(shapeFn, id)
				if !ok2 {
					r.Und(rule, "writer:"+ws.Name+"@"+qname(fi.Obj), w.Pos(call.Pos()), "cannot determine the shape of the spread argument list")
					return true
				}
				ws.Lo, ws.Hi, ws.Keys = lo, hi, keys
			} else {
				ws.Lo, ws.Hi = len(call.Args)-1, len(call.Args)-1
				ws.Explicit = call.Args[1:]
			}
			out = append(out, ws)
			return true
		})
	}
	sort.Slice(out, func(i, j int) bool {
		if out[i].Name != out[j].Name {
			return out[i].Name < out[j].Name
		}
		return qname(out[i].Fn.Obj) < qname(out[j].Fn.Obj)
	})
	return out
}

// spreadShape: `args := [][]byte{ name, K, v, K, v ... }` then `args = append(args, K, v)` (possibly conditional).
func (w *World) spreadShape(fi *FuncInfo, id *ast.Ident) (lo, hi int, keys []string, ok bool) {
	obj := fi.Pkg.TypesInfo.Uses[id]
	if obj == nil {
		return
	}
	info := fi.Pkg.TypesInfo
	constKey := func(e ast.Expr) (string, bool) {
		// []byte("CONST")
		c, ok := e.(*ast.CallExpr)
		if !ok || len(c.Args) != 1 {
			return "", false
		}
		tv := info.Types[c.Args[0]]
		if tv.Value != nil && tv.Value.Kind() == constant.String {
			return constant.StringVal(tv.Value), true
		}
		return "", false
	}
	base := -1
	extra := 0
	bad := false
	ast.Inspect(fi.Decl.Body, func(n ast.Node) bool {
		as, isAs := n.(*ast.AssignStmt)
		if !isAs || len(as.Lhs) != 1 || len(as.Rhs) != 1 {
			return true
		}
		l, isId := as.Lhs[0].(*ast.Ident)
		if !isId {
			return true
		}
		lobj := info.Defs[l]
		if lobj == nil {
			lobj = info.Uses[l]
		}
		if lobj != obj {
			return true
		}
		switch rhs := as.Rhs[0].(type) {
		case *ast.CompositeLit:
			if base >= 0 {
				bad = true
			}
			base = len(rhs.Elts)
			for i, e := range rhs.Elts {
				if i%2 == 1 {
					if k, ok := constKey(e); ok {
						keys = append(keys, k)
					} else {
						bad = true
					}
				}
			}
		case *ast.CallExpr:
			if fn, isId := rhs.Fun.(*ast.Ident); isId && fn.Name == "append" && len(rhs.Args) >= 2 {
				if a0, isId := rhs.Args[0].(*ast.Ident); !isId || info.Uses[a0] != obj {
					bad = true
					return true
				}
				n := len(rhs.Args) - 1
				if n%2 != 0 {
					bad = true
				}
				extra += n
				for i := 1; i < len(rhs.Args); i += 2 {
					if k, ok := constKey(rhs.Args[i]); ok {
						keys = append(keys, k)
					} else {
						bad = true
					}
				}
			} else {
				bad = true
			}
		default:
			bad = true
		}
		return true
	})
	if base < 0 || bad {
		return 0, 0, nil, false
	}
	sort.Strings(keys)
	return base, base + extra, keys, true
}

// ---------- reader table ----------

type readerArm struct {
	Name    string
	Clause  *ast.CaseClause
	GuardOp token.Token // EQL or GEQ
	GuardN  int
	HasGrd  bool
	Keys    []string // inner switch on key (VCREATE)
}

type readerTable struct {
	Fn     *FuncInfo
	Switch *ast.SwitchStmt
	CmdVar types.Object
	Arms   map[string]*readerArm
	Order  []string
}

func isCommandPtr(t types.Type) bool {
	if p, ok := t.(*types.Pointer); ok {
		t = p.Elem()
	}
	n, ok := t.(*types.Named)
	return ok && n.Obj().Name() == "Command" && n.Obj().Pkg() != nil && strings.HasSuffix(n.Obj().Pkg().Path(), "/pkg/persistence")
}

func (w *World) readerTable(r *Report, rule string) *readerTable {
	fi := w.Func("pkg/engine", "Engine.replayAOF")
	if fi == nil {
		r.Und(rule, "anchor:Engine.replayAOF", "", "anchor lost: (*Engine).replayAOF not found")
		return nil
	}
	info := fi.Pkg.TypesInfo
	rt := &readerTable{Fn: fi, Arms: map[string]*readerArm{}}
	ast.Inspect(fi.Decl.Body, func(n ast.Node) bool {
		sw, ok := n.(*ast.SwitchStmt)
		if !ok || sw.Tag == nil || rt.Switch != nil {
			return true
		}
		sel, ok := sw.Tag.(*ast.SelectorExpr)
		if !ok || sel.Sel.Name != "Name" {
			return true
		}
		if !isCommandPtr(info.TypeOf(sel.X)) {
			return true
		}
		if id, ok := sel.X.(*ast.Ident); ok {
			rt.CmdVar = info.Uses[id]
		}
		rt.Switch = sw
		return false
	})
	if rt.Switch == nil || rt.CmdVar == nil {
		r.Und(rule, "anchor:replay-switch", w.Pos(fi.Decl.Pos()), "anchor lost: no `switch cmd.Name` over *persistence.Command in replayAOF")
		return nil
	}
	for _, st := range rt.Switch.Body.List {
		cc := st.(*ast.CaseClause)
		for _, e := range cc.List {
			tv := info.Types[e]
			if tv.Value == nil || tv.Value.Kind() != constant.String {
				r.Und(rule, "reader-arm", w.Pos(e.Pos()), "case label is not a constant string")
				continue
			}
			arm := &readerArm{Name: constant.StringVal(tv.Value), Clause: cc}
			// first statement: if len(cmd.Args) OP n
			if len(cc.Body) > 0 {
				if ifs, ok := cc.Body[0].(*ast.IfStmt); ok && len(cc.Body) == 1 {
					if op, n, ok := w.lenArgsCmp(info, rt.CmdVar, ifs.Cond); ok {
						arm.GuardOp, arm.GuardN, arm.HasGrd = op, n, true
					}
				}
			}
			// inner switch over a string key
			ast.Inspect(cc, func(n ast.Node) bool {
				isw, ok := n.(*ast.SwitchStmt)
				if !ok || isw.Tag == nil {
					return true
				}
				for _, s2 := range isw.Body.List {
					for _, e2 := range s2.(*ast.CaseClause).List {
						if tv := info.Types[e2]; tv.Value != nil && tv.Value.Kind() == constant.String {
							arm.Keys = append(arm.Keys, constant.StringVal(tv.Value))
						}
					}
				}
				return true
			})
			sort.Strings(arm.Keys)
			rt.Arms[arm.Name] = arm
			rt.Order = append(rt.Order, arm.Name)
		}
	}
	return rt
}

// lenArgsCmp recognises `len(cmd.Args) OP const` (also const OP' len(...)); returns normalised (op,n)
// with op in {==, >=, >}. Only the top-level expression or the leftmost && conjunct is considered.
func (w *World) lenArgsCmp(info *types.Info, cmd types.Object, e ast.Expr) (token.Token, int, bool) {
	e = ast.Unparen(e)
	be, ok := e.(*ast.BinaryExpr)
	if !ok {
		return 0, 0, false
	}
	if be.Op == token.LAND {
		if op, n, ok := w.lenArgsCmp(info, cmd, be.X); ok {
			return op, n, true
		}
		return 0, 0, false
	}
	isLen := func(x ast.Expr) bool {
		c, ok := ast.Unparen(x).(*ast.CallExpr)
		if !ok || len(c.Args) != 1 {
			return false
		}
		if id, ok := c.Fun.(*ast.Ident); !ok || id.Name != "len" {
			return false
		}
		return w.isCmdArgs(info, cmd, c.Args[0])
	}
	cv := func(x ast.Expr) (int, bool) {
		tv := info.Types[x]
		if tv.Value != nil && tv.Value.Kind() == constant.Int {
			v, ok := constant.Int64Val(tv.Value)
			return int(v), ok
		}
		return 0, false
	}
	if isLen(be.X) {
		if n, ok := cv(be.Y); ok {
			switch be.Op {
			case token.EQL, token.GEQ:
				return be.Op, n, true
			case token.GTR:
				return token.GEQ, n + 1, true
			}
		}
	}
	return 0, 0, false
}

func (w *World) isCmdArgs(info *types.Info, cmd types.Object, e ast.Expr) bool {
	sel, ok := ast.Unparen(e).(*ast.SelectorExpr)
	if !ok || sel.Sel.Name != "Args" {
		return false
	}
	id, ok := sel.X.(*ast.Ident)
	return ok && info.Uses[id] == cmd
}

// checkArmIndexes: every constant index cmd.Args[i] inside the arm is below the length that the
// dominating guards establish; loop-bounded variable indexes are recognised; others are undecided.
func (w *World) checkArmIndexes(r *Report, rule string, rt *readerTable, arm *readerArm) {
	info := rt.Fn.Pkg.TypesInfo
	nIdx := 0
	var walk func(n ast.Node, minLen int, loopVars map[types.Object]int)
	// loopVars: object -> slack s such that var + s < len(cmd.Args) is guaranteed (cond `i < len-1` gives slack 1)
	walkExprCond := func(cond ast.Expr, minLen int) int {
		// returns minLen established when cond is true (for its body)
		if op, n, ok := w.lenArgsCmp(info, rt.CmdVar, cond); ok {
			_ = op
			if n > minLen {
				return n
			}
		}
		return minLen
	}
	walk = func(n ast.Node, minLen int, loopVars map[types.Object]int) {
		if n == nil {
			return
		}
		switch x := n.(type) {
		case *ast.IfStmt:
			if x.Init != nil {
				walk(x.Init, minLen, loopVars)
			}
			// condition: conjunction — len facts of left conjuncts hold for right conjuncts
			w.walkCond(r, rule, rt, arm, x.Cond, minLen, loopVars, &nIdx)
			inner := walkExprCond(x.Cond, minLen)
			walk(x.Body, inner, loopVars)
			if x.Else != nil {
				walk(x.Else, minLen, loopVars)
			}
			return
		case *ast.ForStmt:
			lv := loopVars
			// for i := a; i < len(cmd.Args)-k; ...
			if be, ok := x.Cond.(*ast.BinaryExpr); ok && be.Op == token.LSS {
				if id, ok := be.X.(*ast.Ident); ok {
					slack, ok2 := w.lenMinus(info, rt.CmdVar, be.Y)
					if ok2 {
						lv = map[types.Object]int{}
						for k, v := range loopVars {
							lv[k] = v
						}
						if o := info.Uses[id]; o != nil {
							lv[o] = slack
						}
					}
				}
			}
			if x.Init != nil {
				walk(x.Init, minLen, lv)
			}
			if x.Post != nil {
				walk(x.Post, minLen, lv)
			}
			walk(x.Body, minLen, lv)
			return
		case *ast.IndexExpr:
			if w.isCmdArgs(info, rt.CmdVar, x.X) {
				w.checkOneIndex(r, rule, rt, arm, x, minLen, loopVars, &nIdx)
			}
		case *ast.SliceExpr:
			if w.isCmdArgs(info, rt.CmdVar, x.X) {
				r.Und(rule, "arm:"+arm.Name+":slice", w.Pos(x.Pos()), "slice of cmd.Args: bounds not analysed")
			}
		case *ast.FuncLit:
			return
		}
		// generic traversal of children
		children(n, func(c ast.Node) { walk(c, minLen, loopVars) })
	}
	for _, st := range arm.Clause.Body {
		walk(st, 0, map[types.Object]int{})
	}
	r.Count("replay_index_uses", nIdx)
}

func (w *World) walkCond(r *Report, rule string, rt *readerTable, arm *readerArm, cond ast.Expr, minLen int, loopVars map[types.Object]int, nIdx *int) {
	info := rt.Fn.Pkg.TypesInfo
	cond = ast.Unparen(cond)
	if be, ok := cond.(*ast.BinaryExpr); ok && be.Op == token.LAND {
		w.walkCond(r, rule, rt, arm, be.X, minLen, loopVars, nIdx)
		if op, n, ok := w.lenArgsCmp(info, rt.CmdVar, be.X); ok && n > minLen {
			_ = op
			minLen = n
		}
		w.walkCond(r, rule, rt, arm, be.Y, minLen, loopVars, nIdx)
		return
	}
	ast.Inspect(cond, func(n ast.Node) bool {
		if ix, ok := n.(*ast.IndexExpr); ok && w.isCmdArgs(info, rt.CmdVar, ix.X) {
			w.checkOneIndex(r, rule, rt, arm, ix, minLen, loopVars, nIdx)
		}
		return true
	})
}

func (w *World) checkOneIndex(r *Report, rule string, rt *readerTable, arm *readerArm, x *ast.IndexExpr, minLen int, loopVars map[types.Object]int, nIdx *int) {
	info := rt.Fn.Pkg.TypesInfo
	*nIdx++
	tv := info.Types[x.Index]
	if tv.Value != nil && tv.Value.Kind() == constant.Int {
		i, _ := constant.Int64Val(tv.Value)
		key := fmt.Sprintf("arm:%s:Args[%d]", arm.Name, i)
		r.Cond(int(i) < minLen, rule, key, w.Pos(x.Pos()),
			fmt.Sprintf("index %d < established length %d", i, minLen),
			fmt.Sprintf("cmd.Args[%d] is used where only len(cmd.Args) >= %d is established: a short %s command panics the replayer", i, minLen, arm.Name))
		return
	}
	// variable index: i or i+c with loop slack
	base, add, ok := splitAdd(info, x.Index)
	if ok {
		if slack, has := loopVars[base]; has {
			key := fmt.Sprintf("arm:%s:Args[%s+%d]", arm.Name, base.Name(), add)
			r.Cond(add <= slack, rule, key, w.Pos(x.Pos()), "loop-bounded index", fmt.Sprintf("index %s+%d may reach len(cmd.Args)", base.Name(), add))
			return
		}
	}
	r.Und(rule, "arm:"+arm.Name+":Args[?]", w.Pos(x.Pos()), "non-constant index into cmd.Args that is not a recognised loop-bounded form")
}

// lenMinus recognises len(cmd.Args) or len(cmd.Args)-k and returns k.
func (w *World) lenMinus(info *types.Info, cmd types.Object, e ast.Expr) (int, bool) {
	e = ast.Unparen(e)
	isLen := func(x ast.Expr) bool {
		c, ok := ast.Unparen(x).(*ast.CallExpr)
		if !ok || len(c.Args) != 1 {
			return false
		}
		id, ok := c.Fun.(*ast.Ident)
		return ok && id.Name == "len" && w.isCmdArgs(info, cmd, c.Args[0])
	}
	if isLen(e) {
		return 0, true
	}
	if be, ok := e.(*ast.BinaryExpr); ok && be.Op == token.SUB && isLen(be.X) {
		if tv := info.Types[be.Y]; tv.Value != nil {
			if v, ok := constant.Int64Val(tv.Value); ok {
				return int(v), true
			}
		}
	}
	return 0, false
}

func splitAdd(info *types.Info, e ast.Expr) (types.Object, int, bool) {
	e = ast.Unparen(e)
	if id, ok := e.(*ast.Ident); ok {
		if o := info.Uses[id]; o != nil {
			return o, 0, true
		}
	}
	if be, ok := e.(*ast.BinaryExpr); ok && be.Op == token.ADD {
		if id, ok := ast.Unparen(be.X).(*ast.Ident); ok {
			if tv := info.Types[be.Y]; tv.Value != nil {
				if v, ok := constant.Int64Val(tv.Value); ok {
					if o := info.Uses[id]; o != nil {
						return o, int(v), true
					}
				}
			}
		}
	}
	return nil, 0, false
}

// children calls f on each direct child node.
func children(n ast.Node, f func(ast.Node)) {
	first := true
	ast.Inspect(n, func(c ast.Node) bool {
		if first {
			first = false
			return true
		}
		if c != nil {
			f(c)
		}
		return false
	})
}

// ---------- CDC-1/2/3 ----------

func ruleCDC123(w *World, r *Report, only map[string]bool) {
	f1, f2, f3 := 11, 30, 4
	if only != nil {
		f1, f2, f3 = 2*len(only), 4*len(only), 0
	}
	r.Doc("CDC-1", "command names written by FormatCommand call sites = names handled by the replay switch", f1)
	r.Doc("CDC-2", "every written arity satisfies the replay arm's length guard; every cmd.Args[i] in an arm is below the established length", f2)
	if only == nil || only["VCREATE"] {
		r.Doc("CDC-3", "VCREATE option keys written ⊆ keys parsed; all VCREATE writers write the same key set and each is paired with a VCONFIG writer", f3)
	}
	ws := w.writerSites(r, "CDC-1")
	rt := w.readerTable(r, "CDC-1")
	if rt == nil {
		return
	}
	r.Count("formatcommand_sites", len(ws))
	r.Count("replay_arms", len(rt.Arms))
	written := map[string][]writerSite{}
	for _, s := range ws {
		if only != nil && !only[s.Name] {
			continue
		}
		written[s.Name] = append(written[s.Name], s)
	}
	names := []string{}
	for n := range written {
		names = append(names, n)
	}
	sort.Strings(names)
	for _, n := range names {
		_, ok := rt.Arms[n]
		r.Cond(ok, "CDC-1", "written:"+n, w.Pos(written[n][0].Call.Pos()), "has a replay arm", "command "+n+" is journaled but replayAOF has no arm for it: it is silently dropped on restart")
	}
	for _, n := range rt.Order {
		if only != nil && !only[n] {
			continue
		}
		_, ok := written[n]
		r.Cond(ok, "CDC-1", "replayed:"+n, w.Pos(rt.Arms[n].Clause.Pos()), "has a writer", "replay arm "+n+" has no writer in the module (dead arm or renamed command)")
	}
	// CDC-2
	for _, n := range names {
		arm := rt.Arms[n]
		if arm == nil {
			continue
		}
		if !arm.HasGrd {
			r.Und("CDC-2", "arm:"+n+":guard", w.Pos(arm.Clause.Pos()), "arm does not start with a single `if len(cmd.Args) OP n` guard")
			continue
		}
		for _, s := range written[n] {
			key := fmt.Sprintf("arity:%s@%s", n, qname(s.Fn.Obj))
			ok := false
			switch arm.GuardOp {
			case token.EQL:
				ok = s.Lo == arm.GuardN && s.Hi == arm.GuardN
			case token.GEQ:
				ok = s.Lo >= arm.GuardN
			}
			r.Cond(ok, "CDC-2", key, w.Pos(s.Call.Pos()),
				fmt.Sprintf("writes %d..%d args, guard len %s %d", s.Lo, s.Hi, arm.GuardOp, arm.GuardN),
				fmt.Sprintf("writes %d..%d args but the %s arm requires len(cmd.Args) %s %d: the command is ignored on replay", s.Lo, s.Hi, n, arm.GuardOp, arm.GuardN))
		}
	}
	for _, n := range rt.Order {
		if only != nil && !only[n] {
			continue
		}
		w.checkArmIndexes(r, "CDC-2", rt, rt.Arms[n])
	}
	// CDC-3
	if only == nil || only["VCREATE"] {
		arm := rt.Arms["VCREATE"]
		vs := written["VCREATE"]
		if arm == nil || len(vs) == 0 {
			r.Und("CDC-3", "anchor:VCREATE", "", "no VCREATE writer/arm")
		} else {
			parsed := map[string]bool{}
			for _, k := range arm.Keys {
				parsed[k] = true
			}
			for _, s := range vs {
				for _, k := range s.Keys {
					r.Cond(parsed[k], "CDC-3", "key:"+k+"@"+qname(s.Fn.Obj), w.Pos(s.Call.Pos()), "parsed by VCREATE arm", "option key "+k+" is written but not parsed by the VCREATE replay arm: the setting is lost on restart")
				}
			}
			for i := 1; i < len(vs); i++ {
				a, b := strings.Join(vs[0].Keys, ","), strings.Join(vs[i].Keys, ",")
				r.Cond(a == b, "CDC-3", "keyset:"+qname(vs[i].Fn.Obj), w.Pos(vs[i].Call.Pos()), "same key set as "+qname(vs[0].Fn.Obj), fmt.Sprintf("VCREATE writers disagree: %s writes {%s}, %s writes {%s}", qname(vs[0].Fn.Obj), a, qname(vs[i].Fn.Obj), b))
			}
			for _, s := range vs {
				has := false
				for _, c := range written["VCONFIG"] {
					if c.Fn == s.Fn {
						has = true
					}
				}
				r.Cond(has, "CDC-3", "vconfig-with-vcreate@"+qname(s.Fn.Obj), w.Pos(s.Call.Pos()), "also writes VCONFIG", "writes VCREATE but never VCONFIG: a maintenance config is lost on this path")
			}
		}
	}
}

// ---------- CDC-4 nil marker ----------

func ruleCDC4(w *World, r *Report, only map[string]bool) {
	f4 := 10
	if only != nil {
		f4 = 2
	}
	r.Doc("CDC-4", "a nil argument ($-1) is either never written (no may-be-nil value reaches FormatCommand) or accepted by ParseCommand", f4)
	pc := w.Func("pkg/persistence", "ParseCommand")
	fc := w.formatCommandObj()
	if pc == nil || fc == nil {
		r.Und("CDC-4", "anchor:ParseCommand", "", "anchor lost")
		return
	}
	// reader: does ParseCommand compare a parsed length with -1 on a non-error path?
	accepts := false
	ptop := w.SSAFunc(pc.Obj)
	// (reading one bulk string may be a function of its own, called by ParseCommand alone)
	for _, pfn := range append([]*ssa.Function{ptop}, w.extractedHelpers(ptop)...) {
		for _, b := range pfn.Blocks {
			for _, in := range b.Instrs {
				bo, ok := in.(*ssa.BinOp)
				if !ok || (bo.Op != token.EQL && bo.Op != token.NEQ) {
					continue
				}
				var other ssa.Value
				if v, ok := constInt(bo.Y); ok && v == -1 {
					other = bo.X
				} else if v, ok := constInt(bo.X); ok && v == -1 {
					other = bo.Y
				}
				if other == nil {
					continue
				}
				// the equal-edge must be able to reach the success return without an error return first
				for _, ref := range *bo.Referrers() {
					iff, ok := ref.(*ssa.If)
					if !ok {
						continue
					}
					eqSucc := 0
					if bo.Op == token.NEQ {
						eqSucc = 1
					}
					// from eq successor: reach a return whose error result is nil const
					q := pathQuery{fn: pfn, target: func(in ssa.Instruction) bool {
						rt, ok := in.(*ssa.Return)
						return ok && len(rt.Results) == 2 && isNilConst(retVal(rt, 1))
					}, avoid: func(in ssa.Instruction) bool {
						rt, ok := in.(*ssa.Return)
						return ok && len(rt.Results) == 2 && !isNilConst(retVal(rt, 1))
					}}
					// every path from the equal edge must not be forced into an error: existence suffices
					start := ipos{iff.Block().Succs[eqSucc], -1}
					// the other successor must not be the same block
					if found, _ := q.find(start); found {
						accepts = true
					}
				}
			}
		}
	}
	r.Count("parsecommand_accepts_nil_marker", b2i(accepts))
	// writers
	n := 0
	for _, fi := range w.ModuleFuncs() {
		fn := w.SSAFunc(fi.Obj)
		if fn == nil {
			continue
		}
		fns := append([]*ssa.Function{fn}, closuresOf(fn)...)
		for _, f := range fns {
			for _, b := range f.Blocks {
				for _, in := range b.Instrs {
					c, ok := in.(*ssa.Call)
					if !ok || calleeObj(&c.Call) != fc || len(c.Call.Args) != 2 {
						continue
					}
					name, _ := constString(c.Call.Args[0])
					if only != nil && !only[name] {
						continue
					}
					elems, spread := variadicElems(c.Call.Args[1])
					if spread {
						continue // spreads are built from []byte(...) conversions; shape checked by CDC-3
					}
					for i, ev := range elems {
						n++
						mayNil, why := mayBeNil(ev, map[ssa.Value]bool{})
						key := fmt.Sprintf("nilarg:%s#%d@%s", name, i, qname(fi.Obj))
						if !mayNil {
							r.Ok("CDC-4", key, w.Pos(c.Pos()), "argument is never nil ("+why+")")
						} else if accepts {
							r.Ok("CDC-4", key, w.Pos(c.Pos()), "may be nil ("+why+"), and ParseCommand accepts the $-1 marker")
						} else {
							r.Bad("CDC-4", key, w.Pos(c.Pos()), fmt.Sprintf("argument %d of %s may be nil (%s): FormatCommand writes `$-1`, ParseCommand rejects a negative length, the frame is skipped on replay and the acknowledged operation is lost", i, name, why))
						}
					}
				}
			}
		}
	}
	r.Count("formatcommand_args_classified", n)
}

func b2i(b bool) int {
	if b {
		return 1
	}
	return 0
}

// variadicElems returns the values stored into the implicit variadic array.
func variadicElems(v ssa.Value) ([]ssa.Value, bool) {
	sl, ok := v.(*ssa.Slice)
	if !ok {
		return nil, true
	}
	al, ok := sl.X.(*ssa.Alloc)
	if !ok {
		return nil, true
	}
	byIdx := map[int64]ssa.Value{}
	max := int64(-1)
	for _, ref := range *al.Referrers() {
		ia, ok := ref.(*ssa.IndexAddr)
		if !ok {
			continue
		}
		idx, ok := constInt(ia.Index)
		if !ok {
			return nil, true
		}
		for _, r2 := range *ia.Referrers() {
			if st, ok := r2.(*ssa.Store); ok && st.Addr == ia {
				byIdx[idx] = st.Val
				if idx > max {
					max = idx
				}
			}
		}
	}
	out := make([]ssa.Value, max+1)
	for i := range out {
		out[i] = byIdx[int64(i)]
	}
	return out, false
}

// mayBeNil: conservative nilness of a []byte-typed SSA value.
func mayBeNil(v ssa.Value, seen map[ssa.Value]bool) (bool, string) {
	if v == nil {
		return true, "unknown element"
	}
	if seen[v] {
		return false, "cycle"
	}
	seen[v] = true
	switch x := v.(type) {
	case *ssa.Const:
		if x.Value == nil {
			return true, "nil constant / zero-valued variable"
		}
		return false, "constant"
	case *ssa.Convert:
		return false, "conversion from string"
	case *ssa.MakeSlice:
		return false, "make"
	case *ssa.Slice:
		return mayBeNil(x.X, seen)
	case *ssa.ChangeType:
		return mayBeNil(x.X, seen)
	case *ssa.Phi:
		for _, e := range x.Edges {
			if n, why := mayBeNil(e, seen); n {
				return true, why
			}
		}
		return false, "all phi edges non-nil"
	case *ssa.Extract:
		if c, ok := x.Tuple.(*ssa.Call); ok {
			if o := calleeObj(&c.Call); o != nil && o.Pkg() != nil && o.Pkg().Path() == "encoding/json" && o.Name() == "Marshal" && x.Index == 0 {
				return false, "json.Marshal result (non-nil on its success path)"
			}
		}
		return true, "result of a call"
	case *ssa.Call:
		if o := calleeObj(&x.Call); o != nil && o.Pkg() != nil && o.Pkg().Path() == "bytes" {
			return true, "result of bytes." + o.Name()
		}
		return true, "result of a call"
	case *ssa.Parameter:
		return true, "caller-supplied parameter " + x.Name()
	case *ssa.UnOp:
		return true, "loaded from memory (field/variable)"
	case *ssa.FreeVar:
		return true, "captured variable " + x.Name()
	}
	return true, fmt.Sprintf("unclassified %T", v)
}

// ---------- CDC-5 bounded allocation ----------

func ruleCDC5(w *World, r *Report) {
	r.Doc("CDC-5", "every data-sized make in the log decoders is dominated by an upper-bound test against a constant <= 2^31, or sized by the input's own length", 3)
	var fns []*FuncInfo
	for _, fi := range w.ModuleFuncs() {
		rp := relPkg(fi.Obj)
		if rp == "pkg/persistence" && hasReaderParam(fi.Obj) {
			fns = append(fns, fi) // decoders: functions of the log package that read from an io.Reader / *bufio.Reader
		}
		if rp == "pkg/engine" {
			switch canonName(fi.Obj) {
			case "parseHexVector", "parseVectorFromString", "resyncAOF", "replayAOF":
				fns = append(fns, fi)
			}
		}
	}
	for _, fi := range fns {
		fn := w.SSAFunc(fi.Obj)
		if fn == nil {
			continue
		}
		for _, f := range append([]*ssa.Function{fn}, closuresOf(fn)...) {
			k := 0
			for _, b := range f.Blocks {
				for _, in := range b.Instrs {
					ms, ok := in.(*ssa.MakeSlice)
					if !ok {
						continue
					}
					k++
					key := fmt.Sprintf("make#%d@%s", k, fnName(f))
					for _, sz := range []ssa.Value{ms.Len, ms.Cap} {
						verdict, why := boundedSize(sz, ms.Block())
						switch verdict {
						case OK:
							r.Ok("CDC-5", key, w.Pos(ms.Pos()), why)
						case Violation:
							r.Bad("CDC-5", key, w.Pos(ms.Pos()), "allocation size is read from the log and not bounded before make: "+why+" — a corrupted length field drives an unbounded allocation")
						default:
							r.Und("CDC-5", key, w.Pos(ms.Pos()), why)
						}
					}
				}
			}
		}
	}
}

func stripConv(v ssa.Value) ssa.Value {
	for {
		switch x := v.(type) {
		case *ssa.Convert:
			v = x.X
		case *ssa.ChangeType:
			v = x.X
		default:
			return v
		}
	}
}

var boundedDepth int

// boundedSize decides whether size value v is bounded at block `at`.
func boundedSize(v ssa.Value, at *ssa.BasicBlock) (Verdict, string) {
	root := stripConv(v)
	if _, ok := root.(*ssa.Const); ok {
		return OK, "constant size"
	}
	if lenDerived(root, 0) {
		return OK, "sized by the length of data already in memory"
	}
	// the size is the answer of a function of the module (the header parser as a function of its own): bounded if it is
	// bounded at every return of that function that reports success
	{
		var call *ssa.Call
		idx := 0
		switch x := root.(type) {
		case *ssa.Extract:
			call, _ = x.Tuple.(*ssa.Call)
			idx = x.Index
		case *ssa.Call:
			call = x
		}
		if call != nil {
			if h := call.Call.StaticCallee(); h != nil && inModule(h) && len(h.Blocks) > 0 && h != at.Parent() && boundedDepth < 2 {
				boundedDepth++
				all, n := true, 0
				nres := h.Signature.Results().Len()
				for _, hb := range h.Blocks {
					rt, isRet := hb.Instrs[len(hb.Instrs)-1].(*ssa.Return)
					if !isRet || len(rt.Results) != nres || idx >= nres {
						continue
					}
					if isErrorType(rt.Results[nres-1].Type()) && definitelyError(retVal(rt, nres-1)) {
						continue
					}
					if isErrorType(rt.Results[nres-1].Type()) && !isNilConst(retVal(rt, nres-1)) {
						continue // hands a callee's error on: the caller returns on it (checked where the size is used)
					}
					n++
					if vd, _ := boundedSize(retVal(rt, idx), hb); vd != OK {
						all = false
					}
				}
				boundedDepth--
				if all && n > 0 {
					return OK, "the size is what " + shortFn(h) + " returns, and that is bounded at each of its successful returns"
				}
			}
		}
	}
	// a bounded size plus or minus a small constant (room for a terminator, a header) is bounded
	if bo, ok := root.(*ssa.BinOp); ok && (bo.Op == token.ADD || bo.Op == token.SUB) {
		small := func(x ssa.Value) bool {
			k, ok := x.(*ssa.Const)
			if !ok || k.Value == nil || k.Value.Kind() != constant.Int {
				return false
			}
			n, exact := constant.Int64Val(k.Value)
			return exact && n >= 0 && n <= 1<<16
		}
		other := ssa.Value(nil)
		if small(bo.Y) {
			other = bo.X
		} else if bo.Op == token.ADD && small(bo.X) {
			other = bo.Y
		}
		if other != nil {
			verdict, why := boundedSize(other, at)
			if verdict == OK {
				why += " (and a small constant added)"
			}
			return verdict, why
		}
	}
	// look for dominating upper-bound comparisons on root (or conversions of it)
	cands := []ssa.Value{root}
	if refs := root.Referrers(); refs != nil {
		for _, ref := range *refs {
			if c, ok := ref.(*ssa.Convert); ok {
				cands = append(cands, c)
			}
		}
	}
	if v != root {
		cands = append(cands, v)
	}
	for _, cv := range cands {
		refs := cv.Referrers()
		if refs == nil {
			continue
		}
		for _, ref := range *refs {
			bo, ok := ref.(*ssa.BinOp)
			if !ok {
				continue
			}
			var c *ssa.Const
			op := bo.Op
			if k, ok := bo.Y.(*ssa.Const); ok && bo.X == cv {
				c = k
			} else if k, ok := bo.X.(*ssa.Const); ok && bo.Y == cv {
				c = k
				// flip
				switch op {
				case token.GTR:
					op = token.LSS
				case token.GEQ:
					op = token.LEQ
				case token.LSS:
					op = token.GTR
				case token.LEQ:
					op = token.GEQ
				}
			}
			if c == nil || c.Value == nil || c.Value.Kind() != constant.Int {
				continue
			}
			bound, exact := constant.Int64Val(c.Value)
			if !exact || bound > 1<<31 {
				continue
			}
			boundedSucc := -1
			switch op {
			case token.GTR, token.GEQ:
				boundedSucc = 1
			case token.LSS, token.LEQ:
				boundedSucc = 0
			default:
				continue
			}
			for _, r2 := range *bo.Referrers() {
				iff, ok := r2.(*ssa.If)
				if !ok {
					continue
				}
				succ := iff.Block().Succs[boundedSucc]
				// edge dominance: successor has this block as its only predecessor, and dominates `at`
				if len(succ.Preds) == 1 && succ.Dominates(at) {
					return OK, fmt.Sprintf("dominated by comparison with constant %d", bound)
				}
				// `a || v > C` shapes: the bounded successor may be reached from several error tests;
				// accept if every path from entry to `at` avoids the unbounded successor edge.
				q := pathQuery{fn: at.Parent(), target: func(in ssa.Instruction) bool { return in.Block() == at },
					blocked: map[edgeKey]bool{{iff.Block(), boundedSucc}: true}}
				// paths that reach `at` while never taking the bounded edge out of this If: must be none,
				// and additionally the If block must dominate `at`.
				if iff.Block().Dominates(at) {
					if found, _ := q.find(ipos{at.Parent().Blocks[0], -1}); !found {
						return OK, fmt.Sprintf("every path passes the comparison with constant %d", bound)
					}
				}
			}
		}
	}
	return Violation, "no dominating comparison against a constant <= 2^31 found for the size value"
}

func lenDerived(v ssa.Value, depth int) bool {
	if depth > 6 {
		return false
	}
	v = stripConv(v)
	switch x := v.(type) {
	case *ssa.Const:
		return true
	case *ssa.Call:
		if b, ok := x.Call.Value.(*ssa.Builtin); ok && (b.Name() == "len" || b.Name() == "cap") {
			return true
		}
	case *ssa.BinOp:
		switch x.Op {
		case token.ADD, token.SUB, token.QUO, token.REM, token.SHR:
			return lenDerived(x.X, depth+1) && lenDerived(x.Y, depth+1)
		case token.MUL:
			// len * const (small)
			if c, ok := constInt(stripConv(x.Y)); ok && c <= 64 {
				return lenDerived(x.X, depth+1)
			}
			if c, ok := constInt(stripConv(x.X)); ok && c <= 64 {
				return lenDerived(x.Y, depth+1)
			}
		}
	case *ssa.Phi:
		for _, e := range x.Edges {
			if !lenDerived(e, depth+1) {
				return false
			}
		}
		return true
	}
	return false
}

// ---------- CDC-6 start-up refusal ----------

func ruleCDC6(w *World, r *Report) {
	r.Doc("CDC-6", "inside replayAOF's frame loop the only error return is guarded by errors.Is(err, ErrInvalidMagic) && validOffset == 0", 1)
	fi := w.Func("pkg/engine", "Engine.replayAOF")
	if fi == nil {
		r.Und("CDC-6", "anchor:Engine.replayAOF", "", "anchor lost")
		return
	}
	info := fi.Pkg.TypesInfo
	// the frame loop = the for statement that contains the call to persistence.ReadFrame
	rf := w.FuncObj("pkg/persistence", "ReadFrame")
	var loop *ast.ForStmt
	ast.Inspect(fi.Decl.Body, func(n ast.Node) bool {
		fs, ok := n.(*ast.ForStmt)
		if !ok || loop != nil {
			return true
		}
		has := false
		ast.Inspect(fs.Body, func(m ast.Node) bool {
			if c, ok := m.(*ast.CallExpr); ok && typeutil.StaticCallee(info, c) == rf {
				has = true
			}
			return true
		})
		if has {
			loop = fs
			return false
		}
		return true
	})
	if loop == nil {
		r.Und("CDC-6", "anchor:frame-loop", w.Pos(fi.Decl.Pos()), "anchor lost: no loop calling persistence.ReadFrame in replayAOF")
		return
	}
	// walk with stack of enclosing if conditions
	type frame struct {
		cond   ast.Expr
		inBody bool
	}
	n := 0
	var walk func(node ast.Node, stack []frame)
	walk = func(node ast.Node, stack []frame) {
		switch x := node.(type) {
		case *ast.FuncLit:
			return
		case *ast.IfStmt:
			if x.Init != nil {
				walk(x.Init, stack)
			}
			walk(x.Body, append(append([]frame{}, stack...), frame{x.Cond, true}))
			if x.Else != nil {
				walk(x.Else, append(append([]frame{}, stack...), frame{x.Cond, false}))
			}
			return
		case *ast.ReturnStmt:
			if len(x.Results) == 0 {
				return
			}
			last := x.Results[len(x.Results)-1]
			if id, ok := last.(*ast.Ident); ok && id.Name == "nil" {
				return
			}
			n++
			ok := false
			for _, f := range stack {
				if f.inBody && w.isMagicAtStartCond(info, f.cond) {
					ok = true
				}
			}
			r.Cond(ok, "CDC-6", fmt.Sprintf("loop-error-return#%d", n), w.Pos(x.Pos()),
				"guarded by ErrInvalidMagic at offset 0",
				"replayAOF returns an error from inside the frame loop on a path not guarded by `errors.Is(err, ErrInvalidMagic) && validOffset == 0`: damage after the first frame would make Open refuse to start")
			return
		}
		children(node, func(c ast.Node) { walk(c, stack) })
	}
	walk(loop.Body, nil)
	r.Count("replay_loop_error_returns", n)
}

func (w *World) isMagicAtStartCond(info *types.Info, cond ast.Expr) bool {
	var conj []ast.Expr
	var flat func(e ast.Expr)
	flat = func(e ast.Expr) {
		e = ast.Unparen(e)
		if be, ok := e.(*ast.BinaryExpr); ok && be.Op == token.LAND {
			flat(be.X)
			flat(be.Y)
			return
		}
		conj = append(conj, e)
	}
	flat(cond)
	hasIs, hasZero := false, false
	for _, c := range conj {
		if call, ok := c.(*ast.CallExpr); ok {
			if f := typeutil.StaticCallee(info, call); f != nil && f.Pkg() != nil && f.Pkg().Path() == "errors" && f.Name() == "Is" && len(call.Args) == 2 {
				if sel, ok := call.Args[1].(*ast.SelectorExpr); ok {
					if o := info.Uses[sel.Sel]; o != nil && o.Name() == "ErrInvalidMagic" && relPkg(o) == "pkg/persistence" {
						hasIs = true
					}
				}
			}
		}
		if be, ok := c.(*ast.BinaryExpr); ok && be.Op == token.EQL {
			if id, ok := be.X.(*ast.Ident); ok && strings.Contains(strings.ToLower(id.Name), "offset") {
				if tv := info.Types[be.Y]; tv.Value != nil && constant.Sign(tv.Value) == 0 {
					hasZero = true
				}
			}
		}
	}
	return hasIs && hasZero
}

// ---------- CDC-7 bit-exact vectors ----------

func ruleCDC7(w *World, r *Report) {
	r.Doc("CDC-7", "vector text goes through math.Float32bits / Float32frombits and no decimal float formatting; every VADD writer takes its vector text from that encoder", 5)
	// the two halves of the codec are found by what they do: the function of pkg/engine that turns floats into their IEEE
	// bit patterns (math.Float32bits) and the one that turns bit patterns back (math.Float32frombits) — whatever they are
	// called, and whether the hex decoder is a function of its own or a branch of the vector parser
	var enc, dec *FuncInfo
	for _, fi := range w.ModuleFuncs() {
		if relPkg(fi.Obj) != "pkg/engine" {
			continue
		}
		fn := w.SSAFunc(fi.Obj)
		if fn == nil {
			continue
		}
		for _, b := range fn.Blocks {
			for _, in := range b.Instrs {
				if isCallTo(in, "math", "Float32bits") && enc == nil {
					enc = fi
				}
				if isCallTo(in, "math", "Float32frombits") && dec == nil {
					dec = fi
				}
			}
		}
	}
	if enc == nil || dec == nil {
		r.Und("CDC-7", "anchor:hex-codec", "", "anchor lost: no function of pkg/engine calls math.Float32bits / math.Float32frombits")
		return
	}
	calls := func(fi *FuncInfo) map[string]bool {
		out := map[string]bool{}
		fn := w.SSAFunc(fi.Obj)
		for _, b := range fn.Blocks {
			for _, in := range b.Instrs {
				if c := callCommon(in); c != nil {
					if o := calleeObj(c); o != nil && o.Pkg() != nil {
						out[o.Pkg().Path()+"."+o.Name()] = true
					}
				}
			}
		}
		return out
	}
	ec, dc := calls(enc), calls(dec)
	r.Cond(ec["math.Float32bits"], "CDC-7", "encoder:Float32bits", w.Pos(enc.Decl.Pos()), "uses math.Float32bits", "hex encoder no longer takes the IEEE bit pattern (math.Float32bits): vectors are not bit-exact in the log")
	r.Cond(dc["math.Float32frombits"], "CDC-7", "decoder:Float32frombits", w.Pos(dec.Decl.Pos()), "uses math.Float32frombits", "hex decoder no longer rebuilds the float from its bit pattern")
	lossy := []string{"strconv.FormatFloat", "strconv.AppendFloat", "fmt.Sprintf", "fmt.Sprint", "fmt.Fprintf", "strconv.ParseFloat"}
	// (a decoder that is one branch of a multi-format parser may call the decimal parser in its OTHER branch: what matters
	// is that the bit pattern handed to Float32frombits comes out of the hexadecimal integer parse)
	bitsFromHex := false
	for _, in := range findInstrs(w.SSAFunc(dec.Obj), func(in ssa.Instruction) bool { return isCallTo(in, "math", "Float32frombits") }) {
		for _, rt := range append(valueRoots(in.(*ssa.Call).Call.Args[0]), in.(*ssa.Call).Call.Args[0]) {
			if ex, ok := rt.(*ssa.Extract); ok {
				rt = ex.Tuple
			}
			if pc, ok := rt.(*ssa.Call); ok && isCallTo(pc, "strconv", "ParseUint") {
				bitsFromHex = true
			}
		}
	}
	for _, l := range lossy {
		r.Cond(!ec[l], "CDC-7", "encoder:no-"+l, w.Pos(enc.Decl.Pos()), "not used", "vector encoder calls "+l+": decimal formatting is not bit-exact (NaN payloads, -0)")
		r.Cond(!dc[l] || bitsFromHex, "CDC-7", "decoder:no-"+l, w.Pos(dec.Decl.Pos()), "the bit pattern comes from the hexadecimal parse", "hex decoder calls "+l)
	}
	// the 32-bit parse width in the decoder: ParseUint(..., 16, 32)
	dfn := w.SSAFunc(dec.Obj)
	for _, in := range findInstrs(dfn, func(in ssa.Instruction) bool { return isCallTo(in, "strconv", "ParseUint") }) {
		c := in.(*ssa.Call)
		base, _ := constInt(c.Call.Args[1])
		bits, _ := constInt(c.Call.Args[2])
		r.Cond(base == 16 && bits >= 32, "CDC-7", "decoder:ParseUint(16,32)", w.Pos(c.Pos()), "base 16, >=32 bits", fmt.Sprintf("hex decoder parses with base %d / %d bits", base, bits))
	}
	// encoder: 8 nibbles per float with shift 4 and mask 0xF
	efn := w.SSAFunc(enc.Obj)
	has := map[string]bool{}
	for _, b := range efn.Blocks {
		for _, in := range b.Instrs {
			if bo, ok := in.(*ssa.BinOp); ok {
				if v, ok := constInt(bo.Y); ok {
					if bo.Op == token.AND && v == 0xF {
						has["mask"] = true
					}
					if bo.Op == token.SHR && v == 4 {
						has["shift"] = true
					}
				}
			}
		}
	}
	r.Cond(has["mask"] && has["shift"], "CDC-7", "encoder:nibbles", w.Pos(enc.Decl.Pos()), "4-bit mask and shift", "hex encoder no longer emits 4-bit nibbles (mask 0xF / shift 4)")
	// every VADD writer: arg#2 derives from float32SliceToHexString
	fc := w.formatCommandObj()
	for _, fi := range w.ModuleFuncs() {
		fn := w.SSAFunc(fi.Obj)
		if fn == nil {
			continue
		}
		for _, f := range append([]*ssa.Function{fn}, closuresOf(fn)...) {
			for _, b := range f.Blocks {
				for _, in := range b.Instrs {
					c, ok := in.(*ssa.Call)
					if !ok || calleeObj(&c.Call) != fc {
						continue
					}
					if name, _ := constString(c.Call.Args[0]); name != "VADD" {
						continue
					}
					elems, spread := variadicElems(c.Call.Args[1])
					if spread || len(elems) < 3 {
						r.Und("CDC-7", "vadd-vector@"+qname(fi.Obj), w.Pos(c.Pos()), "cannot see the vector argument")
						continue
					}
					ok2 := derivesFromCall(elems[2], enc.Obj, 0)
					r.Cond(ok2, "CDC-7", "vadd-vector@"+qname(fi.Obj), w.Pos(c.Pos()), "vector text comes from float32SliceToHexString", "VADD is journaled with a vector text that does not come from the bit-exact hex encoder")
				}
			}
		}
	}
}

func derivesFromCall(v ssa.Value, f *types.Func, depth int) bool {
	if depth > 8 || v == nil {
		return false
	}
	switch x := v.(type) {
	case *ssa.Call:
		return calleeObj(&x.Call) == f
	case *ssa.Convert:
		return derivesFromCall(x.X, f, depth+1)
	case *ssa.ChangeType:
		return derivesFromCall(x.X, f, depth+1)
	case *ssa.Phi:
		for _, e := range x.Edges {
			if !derivesFromCall(e, f, depth+1) {
				return false
			}
		}
		return len(x.Edges) > 0
	}
	return false
}

// ---------- GRD-crc / GRD-resync ----------

// condEdges returns (failure edges, success edges) for `if err != nil` style tests on call c.
func succFailEdges(fn *ssa.Function, c *ssa.Call) (fail, succ map[edgeKey]bool) {
	fail = failureEdges(fn, c)
	succ = map[edgeKey]bool{}
	for k := range fail {
		succ[edgeKey{k.from, 1 - k.succ}] = true
	}
	return
}

func ruleGRDcrc(w *World, r *Report) {
	r.Doc("GRD-crc", "ReadFrame returns a payload only on the path where the recomputed CRC equals the header CRC; resyncAOF accepts a candidate only after ReadFrame and ParseCommand both succeeded", 3)
	rf := w.Func("pkg/persistence", "ReadFrame")
	if rf == nil {
		r.Und("GRD-crc", "anchor:ReadFrame", "", "anchor lost")
		return
	}
	fn := w.SSAFunc(rf.Obj)
	// the CRC comparison
	blocked := map[edgeKey]bool{}
	nCmp := 0
	for _, b := range fn.Blocks {
		for _, in := range b.Instrs {
			bo, ok := in.(*ssa.BinOp)
			if !ok || (bo.Op != token.NEQ && bo.Op != token.EQL) {
				continue
			}
			isCRC := func(v ssa.Value) bool {
				c, ok := v.(*ssa.Call)
				if !ok {
					return false
				}
				o := calleeObj(&c.Call)
				return o != nil && o.Pkg() != nil && o.Pkg().Path() == "hash/crc32"
			}
			isHdr := func(v ssa.Value) bool {
				c, ok := v.(*ssa.Call)
				if !ok {
					return false
				}
				o := calleeObj(&c.Call)
				return o != nil && o.Pkg() != nil && o.Pkg().Path() == "encoding/binary" && strings.HasPrefix(o.Name(), "Uint32")
			}
			if !(isCRC(bo.X) && isHdr(bo.Y) || isCRC(bo.Y) && isHdr(bo.X)) {
				continue
			}
			for _, ref := range *bo.Referrers() {
				if iff, ok := ref.(*ssa.If); ok {
					nCmp++
					eq := 0
					if bo.Op == token.NEQ {
						eq = 1
					}
					blocked[edgeKey{iff.Block(), eq}] = true
				}
			}
		}
	}
	if nCmp == 0 {
		r.Bad("GRD-crc", "ReadFrame:crc-compare", w.Pos(rf.Decl.Pos()), "ReadFrame has no comparison of crc32(payload) with the header checksum: damaged payloads are returned as valid")
	} else {
		found, wit := pathQuery{fn: fn, target: func(in ssa.Instruction) bool {
			rt, ok := in.(*ssa.Return)
			return ok && len(rt.Results) >= 1 && !isNilConst(retVal(rt, 0))
		}, blocked: blocked}.find(entryPos(fn))
		r.Cond(!found, "GRD-crc", "ReadFrame:payload-return", w.Pos(rf.Decl.Pos()), "payload returned only through the crc-equal edge", "ReadFrame can return a payload on a path that does not pass the CRC equality test", w.witness(wit)...)
		// and the error result on that path is nil only via crc-equal edge
		found2, wit2 := pathQuery{fn: fn, target: func(in ssa.Instruction) bool {
			rt, ok := in.(*ssa.Return)
			return ok && len(rt.Results) == 3 && isNilConst(retVal(rt, 2))
		}, blocked: blocked}.find(entryPos(fn))
		r.Cond(!found2, "GRD-crc", "ReadFrame:nil-error-return", w.Pos(rf.Decl.Pos()), "nil error only through the crc-equal edge", "ReadFrame can report success on a path that does not pass the CRC equality test", w.witness(wit2)...)
	}
	// magic check precedes payload read
	// resyncAOF
	rs := w.Func("pkg/engine", "resyncAOF")
	if rs == nil {
		r.Und("GRD-crc", "anchor:resyncAOF", "", "anchor lost")
		return
	}
	rfn := w.SSAFunc(rs.Obj)
	pcObj := w.FuncObj("pkg/persistence", "ParseCommand")
	for _, pair := range []struct {
		name string
		obj  *types.Func
	}{{"ReadFrame", rf.Obj}, {"ParseCommand", pcObj}} {
		calls := findInstrs(rfn, callsTo(pair.obj))
		notFalse := func(in ssa.Instruction) bool { // a return that can say "found"
			rt, ok := in.(*ssa.Return)
			if !ok || len(rt.Results) == 0 {
				return false
			}
			c, isC := retVal(rt, len(rt.Results)-1).(*ssa.Const)
			return !(isC && c.Value != nil && c.Value.Kind() == constant.Bool && !constant.BoolVal(c.Value))
		}
		if len(calls) == 0 {
			// the candidate test moved into a helper that answers yes/no: it must say yes only after the call succeeded, and
			// resyncAOF must accept only on its yes
			okHelper := false
			for _, h := range w.extractedHelpers(rfn) {
				inner := findInstrs(h, callsTo(pair.obj))
				res := h.Signature.Results()
				if len(inner) == 0 || res.Len() != 1 || !isBoolType(res.At(0).Type()) {
					continue
				}
				blockedH := map[edgeKey]bool{}
				for _, c := range inner {
					_, succ := succFailEdges(h, c.(*ssa.Call))
					for k := range succ {
						blockedH[k] = true
					}
				}
				// `return err == nil` on the call's own error is a yes that is the call's success
				isSuccessOf := func(v ssa.Value) bool {
					bo, ok := v.(*ssa.BinOp)
					if !ok || bo.Op != token.EQL || !(isNilConst(bo.X) || isNilConst(bo.Y)) {
						return false
					}
					e := bo.X
					if isNilConst(e) {
						e = bo.Y
					}
					for _, c := range inner {
						for _, ev := range errValues(c.(*ssa.Call)) {
							if ev == e {
								return true
							}
						}
					}
					return false
				}
				directYes := false
				canSayYes := func(in ssa.Instruction) bool {
					if !notFalse(in) {
						return false
					}
					rt := in.(*ssa.Return)
					if isSuccessOf(retVal(rt, len(rt.Results)-1)) {
						directYes = true
						return false
					}
					return true
				}
				yes, _ := (pathQuery{fn: h, target: canSayYes, blocked: blockedH}).find(entryPos(h))
				if yes || (len(blockedH) == 0 && !directYes) {
					continue // the helper can say yes without the call having succeeded
				}
				blockedS := map[edgeKey]bool{}
				for _, hc := range findInstrs(rfn, func(in ssa.Instruction) bool {
					c, ok := in.(*ssa.Call)
					return ok && c.Call.StaticCallee() == h
				}) {
					for _, ref := range *hc.(*ssa.Call).Referrers() {
						edge := 0
						if u, ok := ref.(*ssa.UnOp); ok && u.Op == token.NOT && u.Referrers() != nil {
							edge = 1
							for _, r2 := range *u.Referrers() {
								ref = r2
							}
						}
						if iff, ok := ref.(*ssa.If); ok {
							blockedS[edgeKey{iff.Block(), edge}] = true
						}
					}
				}
				if len(blockedS) == 0 {
					continue
				}
				okHelper = true
				found, wit := pathQuery{fn: rfn, target: notFalse, blocked: blockedS}.find(entryPos(rfn))
				r.Cond(!found, "GRD-crc", "resyncAOF:accept-after-"+pair.name, w.Pos(rs.Decl.Pos()), "candidate accepted only after "+pair.name+" succeeded (inside "+shortFn(h)+")", "resyncAOF can accept a candidate offset without a successful "+pair.name, w.witness(wit)...)
			}
			if !okHelper {
				// the candidate test is the visitor handed to a scanner (`forEachMagicByte(file, start, func(pos) bool {…})`):
				// the verdict travels in captured variables. What resyncAOF returns as "found" is such a variable, and the
				// visitor stores a value other than false into it only after the call has succeeded.
				for _, cf := range closuresOf(rfn) {
					inner := findInstrs(cf, callsTo(pair.obj))
					if len(inner) == 0 {
						continue
					}
					// the cells resyncAOF's verdict is read from
					verdictCells := map[ssa.Value]bool{}
					for _, b := range rfn.Blocks {
						if rt, ok := b.Instrs[len(b.Instrs)-1].(*ssa.Return); ok && len(rt.Results) > 0 {
							for _, rv := range []ssa.Value{rt.Results[len(rt.Results)-1], retVal(rt, len(rt.Results)-1)} {
								if ld, ok := rv.(*ssa.UnOp); ok && ld.Op == token.MUL {
									verdictCells[cellRoot(ld.X)] = true
								}
							}
						}
					}
					blockedC := map[edgeKey]bool{}
					for _, c := range inner {
						_, succ := succFailEdges(cf, c.(*ssa.Call))
						for k := range succ {
							blockedC[k] = true
						}
					}
					accepts := func(in ssa.Instruction) bool {
						st, ok := in.(*ssa.Store)
						if !ok || !verdictCells[cellRoot(st.Addr)] {
							return false
						}
						c, isC := st.Val.(*ssa.Const)
						return !(isC && c.Value != nil && c.Value.Kind() == constant.Bool && !constant.BoolVal(c.Value))
					}
					if os.Getenv("KVLINT_DEBUG") != "" {
						fmt.Fprintln(os.Stderr, "DEBUG GRD-crc visitor", cf.Name(), len(verdictCells), len(findInstrs(cf, accepts)), len(blockedC))
					}
					if len(verdictCells) == 0 || len(findInstrs(cf, accepts)) == 0 || len(blockedC) == 0 {
						continue
					}
					// … and resyncAOF itself never says "found" on its own
					own := len(findInstrs(rfn, accepts)) > 0
					okHelper = true
					found, wit := pathQuery{fn: cf, target: accepts, blocked: blockedC}.find(entryPos(cf))
					r.Cond(!found && !own, "GRD-crc", "resyncAOF:accept-after-"+pair.name, w.Pos(rs.Decl.Pos()), "candidate accepted only after "+pair.name+" succeeded (inside the visitor of the scan)", "resyncAOF can accept a candidate offset without a successful "+pair.name, w.witness(wit)...)
				}
			}
			if okHelper {
				continue
			}
			r.Bad("GRD-crc", "resyncAOF:needs-"+pair.name, w.Pos(rs.Decl.Pos()), "resyncAOF no longer validates a candidate with "+pair.name+": a stray magic byte inside garbage is accepted as a frame")
			continue
		}
		blockedS := map[edgeKey]bool{}
		for _, c := range calls {
			_, succ := succFailEdges(rfn, c.(*ssa.Call))
			if len(succ) == 0 {
				r.Und("GRD-crc", "resyncAOF:"+pair.name+"-test", w.Pos(c.Pos()), "result of "+pair.name+" is not tested with ==/!= nil")
			}
			for k := range succ {
				blockedS[k] = true
			}
		}
		found, wit := pathQuery{fn: rfn, target: func(in ssa.Instruction) bool {
			rt, ok := in.(*ssa.Return)
			if !ok || len(rt.Results) != 2 {
				return false
			}
			c, isC := retVal(rt, 1).(*ssa.Const)
			return !(isC && c.Value != nil && c.Value.Kind() == constant.Bool && !constant.BoolVal(c.Value))
		}, blocked: blockedS}.find(entryPos(rfn))
		r.Cond(!found, "GRD-crc", "resyncAOF:accept-after-"+pair.name, w.Pos(rs.Decl.Pos()), "candidate accepted only after "+pair.name+" succeeded", "resyncAOF can accept a candidate offset without a successful "+pair.name, w.witness(wit)...)
	}
}

func hasReaderParam(f *types.Func) bool {
	sig := f.Type().(*types.Signature)
	for i := 0; i < sig.Params().Len(); i++ {
		ts := sig.Params().At(i).Type().String()
		if ts == "io.Reader" || ts == "*bufio.Reader" {
			return true
		}
	}
	return false
}

// ---------- CDC-6b: ErrInvalidMagic means "first byte is not the magic byte" and nothing else ----------

func ruleCDC6b(w *World, r *Report) {
	r.Doc("CDC-6b", "ReadFrame reports ErrInvalidMagic only through the edge where header[0] != MagicByte (replayAOF refuses start-up on that error at offset 0, so no other damage may be mapped to it)", 1)
	rf := w.Func("pkg/persistence", "ReadFrame")
	if rf == nil {
		r.Und("CDC-6b", "anchor:ReadFrame", "", "anchor lost")
		return
	}
	p := w.Pkg("pkg/persistence")
	magicErr := p.Types.Scope().Lookup("ErrInvalidMagic")
	mb, _ := p.Types.Scope().Lookup("MagicByte").(*types.Const)
	if magicErr == nil || mb == nil {
		r.Und("CDC-6b", "anchor:ErrInvalidMagic/MagicByte", "", "anchor lost")
		return
	}
	magicVal, _ := constant.Int64Val(mb.Val())
	n := 0
	for _, fi := range w.ModuleFuncs() {
		if relPkg(fi.Obj) != "pkg/persistence" {
			continue
		}
		fn := w.SSAFunc(fi.Obj)
		if fn == nil {
			continue
		}
		isMagicReturn := func(in ssa.Instruction) bool {
			rt, ok := in.(*ssa.Return)
			if !ok || len(rt.Results) == 0 {
				return false
			}
			ev := retVal(rt, len(rt.Results)-1)
			if u, ok := ev.(*ssa.UnOp); ok {
				if g, ok := u.X.(*ssa.Global); ok && g.Object() == magicErr {
					return true
				}
			}
			return false
		}
		if len(findInstrs(fn, isMagicReturn)) == 0 {
			continue
		}
		n++
		// the mismatch edges: If(BinOp NEQ/EQL (load header[0]) MagicByte)
		blocked := map[edgeKey]bool{}
		for _, b := range fn.Blocks {
			for _, in := range b.Instrs {
				bo, ok := in.(*ssa.BinOp)
				if !ok || (bo.Op != token.NEQ && bo.Op != token.EQL) {
					continue
				}
				c, ok := constInt(bo.Y)
				if !ok || c != magicVal {
					continue
				}
				ld, ok := bo.X.(*ssa.UnOp)
				if !ok {
					continue
				}
				ia, ok := ld.X.(*ssa.IndexAddr)
				if !ok {
					continue
				}
				if idx, ok := constInt(ia.Index); !ok || idx != 0 {
					continue
				}
				for _, ref := range *bo.Referrers() {
					if iff, ok := ref.(*ssa.If); ok {
						mis := 0
						if bo.Op == token.EQL {
							mis = 1
						}
						blocked[edgeKey{iff.Block(), mis}] = true
					}
				}
			}
		}
		key := "ErrInvalidMagic@" + shortName(fi.Obj)
		if len(blocked) == 0 {
			r.Bad("CDC-6b", key, w.Pos(fi.Decl.Pos()), shortName(fi.Obj)+" returns ErrInvalidMagic but never compares byte 0 with MagicByte")
			continue
		}
		found, wit := (pathQuery{fn: fn, target: isMagicReturn, blocked: blocked}).find(entryPos(fn))
		r.Cond(!found, "CDC-6b", key, w.Pos(fi.Decl.Pos()), "returned only through the byte0 != MagicByte edge",
			"ErrInvalidMagic can be returned although the first byte IS the magic byte (another header field is folded into the same error): damage to that field in the FIRST frame makes Open refuse to start instead of skipping one frame", w.witness(wit)...)
	}
	if n == 0 {
		r.Und("CDC-6b", "anchor:return ErrInvalidMagic", "", "no function of pkg/persistence returns ErrInvalidMagic any more")
	}
}

// ---------- GRD-scan: the resync scan tries every byte offset after the damage ----------

func ruleGRDscan(w *World, r *Report) {
	r.Doc("GRD-scan", "resyncAOF's forward scan tries every byte of every window it reads as a frame start: index from 0 while < bytes read, step 1; window base advances by exactly the bytes read; first base = last valid offset + 1", 4)
	rs := w.Func("pkg/engine", "resyncAOF")
	if rs == nil {
		r.Und("GRD-scan", "anchor:resyncAOF", "", "anchor lost")
		return
	}
	fn := w.SSAFunc(rs.Obj)
	pos := w.Pos(rs.Decl.Pos())
	// callers: the scan is started at the last valid offset itself (the loop-carried offset variable), not at a
	// position computed from the frame that just failed (its length field is exactly what may be damaged)
	for _, caller := range w.ModuleFuncs() {
		if relPkg(caller.Obj) != "pkg/engine" {
			continue
		}
		cf := w.SSAFunc(caller.Obj)
		if cf == nil {
			continue
		}
		k := 0
		for _, in := range findInstrs(cf, func(in ssa.Instruction) bool { return isModCall(in, "pkg/engine", "resyncAOF") }) {
			k++
			c := in.(*ssa.Call)
			arg := c.Call.Args[len(c.Call.Args)-1]
			okArg := false
			if phi, ok := arg.(*ssa.Phi); ok {
				// the loop-carried offset: a phi at a loop head that is also what the function truncates to
				for _, ref := range *phi.Referrers() {
					if tc, ok := ref.(*ssa.Call); ok {
						if o := calleeObj(&tc.Call); o != nil && shortName(o) == "File.Truncate" {
							okArg = true
						}
					}
				}
			}
			r.Cond(okArg, "GRD-scan", fmt.Sprintf("%s:resync-start#%d", shortName(caller.Obj), k), w.Pos(c.Pos()), "the scan starts at the last valid offset (the value the repair would truncate to)", shortName(caller.Obj)+" starts the forward scan at a position other than the last valid offset (for example past the frame that just failed, computed from its own length field): a damaged length field that still points inside the file makes the scan jump over intact frames, whose commands are silently dropped")
		}
	}
	// after ANY frame that failed to read, the next frame is read at a position the scan found, never at one computed
	// from the failed frame (its length field is exactly what may be damaged): from the failure edge of a ReadFrame in
	// the replay loop no path leads to the next ReadFrame without resyncAOF
	for _, caller := range w.ModuleFuncs() {
		if relPkg(caller.Obj) != "pkg/engine" {
			continue
		}
		cf := w.SSAFunc(caller.Obj)
		if cf == nil || len(findInstrs(cf, func(in ssa.Instruction) bool { return isModCall(in, "pkg/engine", "resyncAOF") })) == 0 {
			continue
		}
		isRead := func(in ssa.Instruction) bool { return isModCall(in, "pkg/persistence", "ReadFrame") }
		isResync := func(in ssa.Instruction) bool { return isModCall(in, "pkg/engine", "resyncAOF") }
		for i, rd := range findInstrs(cf, isRead) {
			bad := false
			var wit []ssa.Instruction
			for e := range failureEdges(cf, rd.(*ssa.Call)) {
				if f, wv := (pathQuery{fn: cf, target: isRead, avoid: isResync}).find(ipos{e.from.Succs[e.succ], -1}); f {
					bad, wit = true, wv
				}
			}
			r.Cond(!bad, "GRD-scan", fmt.Sprintf("%s:frame-read#%d:failure-leads-to-resync", shortName(caller.Obj), i+1), w.Pos(rd.Pos()), "after a failed frame the next frame is read only behind resyncAOF", shortName(caller.Obj)+" can go on to read the next frame after a failed one without the forward scan (for instance by stepping over the failed frame by its own reported size): a damaged length field that still points inside the file makes replay jump over intact frames, whose commands are silently dropped", w.witness(wit)...)
		}
	}
	// the scan loop may be a function of its own that hands every candidate to a visitor (`forEachMagicByte(file, start,
	// visit)`): the window clauses below are about the function that reads the windows
	top := fn
	isWindowRead := func(in ssa.Instruction) bool { return isCallTo(in, "os", "File.Read") }
	if len(findInstrs(fn, isWindowRead)) == 0 {
		for _, h := range w.extractedHelpers(fn) {
			if len(findInstrs(h, isWindowRead)) > 0 {
				fn = h
				break
			}
		}
	}
	// the window read happens at the scan's own position: whatever else in the loop uses the same file (probing a
	// candidate with ReadFrame, seeking to it) moves the shared offset, so each window read must be preceded, in its
	// own iteration, by a Seek
	{
		reads := findInstrs(fn, func(in ssa.Instruction) bool { return isCallTo(in, "os", "File.Read") })
		isSeek := func(in ssa.Instruction) bool { return isCallTo(in, "os", "File.Seek") }
		for i, rd := range reads {
			h := enclosingLoop(fn, rd.Block())
			if h == nil {
				continue
			}
			body := loopBlocks(fn, h)
			file := rd.(*ssa.Call).Call.Args[0]
			movers := 0
			for b := range body {
				for _, in := range b.Instrs {
					c, ok := in.(*ssa.Call)
					if !ok || in == rd {
						continue
					}
					for _, a := range c.Call.Args {
						for {
							if mi, ok := a.(*ssa.MakeInterface); ok {
								a = mi.X
							} else if ci, ok := a.(*ssa.ChangeInterface); ok {
								a = ci.X
							} else {
								break
							}
						}
						if a == file || sameValue(a, file) {
							movers++
						}
					}
				}
			}
			if movers == 0 {
				r.Ok("GRD-scan", fmt.Sprintf("resyncAOF:window-read#%d:positioned", i+1), w.Pos(rd.Pos()), "nothing else in the scan loop uses the file: sequential reads stay at the scan position")
				continue
			}
			rr := rd
			found, wit := pathQuery{fn: fn, target: func(in ssa.Instruction) bool { return in == rr }, avoid: isSeek}.find(ipos{h, -1})
			r.Cond(!found, "GRD-scan", fmt.Sprintf("resyncAOF:window-read#%d:positioned", i+1), w.Pos(rd.Pos()), "every window read is preceded in its iteration by a Seek (candidate probes move the shared file offset)", "resyncAOF reads the next scan window without re-positioning the file although the loop also probes candidates through the same handle: after a false candidate the next window is read from the wrong place while the base position advances as if it were contiguous — intact frames behind a damaged region that contains a marker byte are missed and dropped", w.witness(wit)...)
		}
	}
	// n := file.Read(buf) #0
	var nVal ssa.Value
	for _, in := range findInstrs(fn, func(in ssa.Instruction) bool { return isCallTo(in, "os", "File.Read") }) {
		for _, ref := range *in.(*ssa.Call).Referrers() {
			if ex, ok := ref.(*ssa.Extract); ok && ex.Index == 0 {
				nVal = ex
			}
		}
	}
	if nVal == nil {
		r.Und("GRD-scan", "resyncAOF:read-count", pos, "scan no longer reads windows with (*os.File).Read — shape not recognised")
		return
	}
	// the comparison of the buffer byte with MagicByte gives the index variable
	var idxVal ssa.Value
	for _, b := range fn.Blocks {
		for _, in := range b.Instrs {
			bo, ok := in.(*ssa.BinOp)
			if !ok || bo.Op != token.EQL && bo.Op != token.NEQ {
				continue
			}
			if c, ok := constInt(bo.Y); !ok || c != 0xA5 {
				continue
			}
			if ld, ok := bo.X.(*ssa.UnOp); ok {
				if ia, ok := ld.X.(*ssa.IndexAddr); ok {
					idxVal = ia.Index
				}
			}
		}
	}
	phi, _ := idxVal.(*ssa.Phi)
	if phi == nil {
		r.Und("GRD-scan", "resyncAOF:index", pos, "cannot find the scan index (a loop variable indexing the window against MagicByte)")
		return
	}
	startsAtZero, stepOne := false, false
	for _, e := range phi.Edges {
		if c, ok := constInt(e); ok && c == 0 {
			startsAtZero = true
		}
		if bo, ok := e.(*ssa.BinOp); ok && bo.Op == token.ADD && bo.X == phi {
			if c, ok := constInt(bo.Y); ok && c == 1 {
				stepOne = true
			}
		}
	}
	r.Cond(startsAtZero, "GRD-scan", "resyncAOF:index-starts-at-0", pos, "scan index starts at 0", "the scan index does not start at 0: the first byte(s) of each window are never tried as a frame start")
	r.Cond(stepOne, "GRD-scan", "resyncAOF:index-step-1", pos, "scan index advances by 1", "the scan index does not advance by exactly 1: offsets are skipped")
	// loop bound: i < n exactly
	boundOK := false
	var boundDesc string
	for _, ref := range *phi.Referrers() {
		bo, ok := ref.(*ssa.BinOp)
		if !ok || bo.X != phi {
			continue
		}
		if bo.Op == token.LSS || bo.Op == token.NEQ {
			if _, isIf := firstIf(bo); isIf {
				if bo.Y == nVal {
					boundOK = true
				} else {
					boundDesc = bo.Y.String()
				}
			}
		}
	}
	if !boundOK {
		// `for i := range n`: go/ssa rotates the loop — the entry test is `0 < n`, the test at the bottom compares the
		// NEXT index (i+1) with n
		for _, ref := range *phi.Referrers() {
			inc, ok := ref.(*ssa.BinOp)
			if !ok || inc.Op != token.ADD || inc.X != ssa.Value(phi) {
				continue
			}
			if c, ok := constInt(inc.Y); !ok || c != 1 || inc.Referrers() == nil {
				continue
			}
			for _, r2 := range *inc.Referrers() {
				bo, ok := r2.(*ssa.BinOp)
				if !ok || bo.X != ssa.Value(inc) || (bo.Op != token.LSS && bo.Op != token.NEQ) {
					continue
				}
				if _, isIf := firstIf(bo); isIf && bo.Y == nVal {
					boundOK = true
				} else if isIf {
					boundDesc = bo.Y.String()
				}
			}
		}
	}
	r.Cond(boundOK, "GRD-scan", "resyncAOF:index-bound-is-bytes-read", pos, "scan runs while index < bytes read", "the scan loop bound is not the number of bytes read ("+boundDesc+"): the last byte(s) of each window are never tried, so an intact frame starting exactly there is skipped and, if it is the last one, truncated away")
	// base advance: base' = base + int64(n); first base = lastValid + 1; candidate = base + int64(i)
	advOK, firstOK, candOK := false, false, false
	for _, b := range fn.Blocks {
		for _, in := range b.Instrs {
			bo, ok := in.(*ssa.BinOp)
			if !ok || bo.Op != token.ADD {
				continue
			}
			y := stripConv(bo.Y)
			if y == nVal {
				if _, ok := bo.X.(*ssa.Phi); ok {
					advOK = true
				}
			}
			if y == ssa.Value(phi) {
				candOK = true
			}
			if p, ok := bo.X.(*ssa.Parameter); ok && p == fn.Params[len(fn.Params)-1] && fn == top {
				if c, ok := constInt(bo.Y); ok && c == 1 {
					firstOK = true
				}
			}
		}
	}
	if fn != top {
		// resyncAOF hands lastValid+1 to the scanner, whose first window base is that parameter
		for _, cs := range callSitesOf(top, fn) {
			for i, a := range cs.Call.Args {
				bo, ok := a.(*ssa.BinOp)
				if !ok || bo.Op != token.ADD || i >= len(fn.Params) {
					continue
				}
				p, isP := bo.X.(*ssa.Parameter)
				c, isC := constInt(bo.Y)
				if !isP || p != top.Params[len(top.Params)-1] || !isC || c != 1 {
					continue
				}
				// … and the scanner's base starts from it: the parameter is an edge of the phi the base advances through
				for _, b := range fn.Blocks {
					for _, in := range b.Instrs {
						if ph, ok := in.(*ssa.Phi); ok {
							for _, e := range ph.Edges {
								if e == ssa.Value(fn.Params[i]) {
									firstOK = true
								}
							}
						}
					}
				}
			}
		}
	}
	r.Cond(advOK, "GRD-scan", "resyncAOF:base-advances-by-bytes-read", pos, "window base advances by the bytes read", "the window base does not advance by exactly the number of bytes read: offsets are skipped or re-read")
	r.Cond(firstOK, "GRD-scan", "resyncAOF:first-base", pos, "scan starts one byte after the last valid offset", "the scan does not start at lastValid+1")
	r.Cond(candOK, "GRD-scan", "resyncAOF:candidate=base+index", pos, "candidate offset = base + index", "the candidate offset is not base+index")
}

func firstIf(v ssa.Value) (*ssa.If, bool) {
	for _, ref := range *v.Referrers() {
		if iff, ok := ref.(*ssa.If); ok {
			return iff, true
		}
	}
	return nil, false
}

// ---------- CDC-8 replay composes with the snapshot ----------

func ruleCDC8(w *World, r *Report) {
	r.Doc("CDC-8", "every index-scoped replay arm resolves its index through a lookup that also finds snapshot-restored indexes; VDROP drops a restored index; vector and KV deletions are applied to the restored state", 8)
	rt := w.readerTable(r, "CDC-8")
	if rt == nil {
		return
	}
	fi := rt.Fn
	info := fi.Pkg.TypesInfo
	getIdx := w.FuncObj("pkg/core", "DB.GetVectorIndex")
	dropIdx := w.FuncObj("pkg/core", "DB.DeleteVectorIndex")
	if getIdx == nil || dropIdx == nil {
		r.Und("CDC-8", "anchor:DB.GetVectorIndex/DeleteVectorIndex", "", "anchor lost")
		return
	}
	// local closures
	closures := map[types.Object]*ast.FuncLit{}
	ast.Inspect(fi.Decl.Body, func(n ast.Node) bool {
		as, ok := n.(*ast.AssignStmt)
		if !ok || len(as.Lhs) != 1 || len(as.Rhs) != 1 {
			return true
		}
		fl, ok := as.Rhs[0].(*ast.FuncLit)
		if !ok {
			return true
		}
		if id, ok := as.Lhs[0].(*ast.Ident); ok {
			if o := info.Defs[id]; o != nil {
				closures[o] = fl
			}
		}
		return true
	})
	callsFn := func(n ast.Node, f *types.Func) bool {
		hit := false
		ast.Inspect(n, func(m ast.Node) bool {
			if c, ok := m.(*ast.CallExpr); ok && typeutil.StaticCallee(info, c) == f {
				hit = true
			}
			return true
		})
		return hit
	}
	restoring := map[types.Object]bool{}
	for o, fl := range closures {
		if callsFn(fl.Body, getIdx) {
			restoring[o] = true
		}
	}
	// the aggregation map: a local map[string]*T with T declared inside replayAOF and holding `entries`
	isAggMap := func(e ast.Expr) bool {
		mt, ok := info.TypeOf(e).Underlying().(*types.Map)
		if !ok {
			return false
		}
		pt, ok := mt.Elem().(*types.Pointer)
		if !ok {
			return false
		}
		st, ok := pt.Elem().Underlying().(*types.Struct)
		if !ok {
			return false
		}
		for i := 0; i < st.NumFields(); i++ {
			if st.Field(i).Name() == "entries" {
				return true
			}
		}
		return false
	}
	for _, name := range []string{"VADD", "VDEL", "VMETA", "VCONFIG", "VAUTOLINKS"} {
		arm := rt.Arms[name]
		if arm == nil {
			r.Und("CDC-8", "arm:"+name, "", "replay arm missing")
			continue
		}
		usesRestoring, direct := false, false
		var directPos token.Pos
		ast.Inspect(arm.Clause, func(n ast.Node) bool {
			switch x := n.(type) {
			case *ast.CallExpr:
				if id, ok := x.Fun.(*ast.Ident); ok && restoring[info.Uses[id]] {
					usesRestoring = true
				}
				if typeutil.StaticCallee(info, x) == getIdx {
					usesRestoring = true
				}
			case *ast.IndexExpr:
				if isAggMap(x.X) {
					direct = true
					directPos = x.Pos()
				}
			}
			return true
		})
		ok := usesRestoring && !direct
		pos := w.Pos(arm.Clause.Pos())
		if direct {
			pos = w.Pos(directPos)
		}
		r.Cond(ok, "CDC-8", "arm:"+name+":sees-restored-indexes", pos, "index resolved through a lookup that falls back to the snapshot-restored DB",
			"the "+name+" arm looks its index up only among indexes created by a VCREATE of this log: after SaveSnapshot (which truncates the log) every "+name+" is dropped on restart")
	}
	if arm := rt.Arms["VDROP"]; arm != nil {
		r.Cond(callsFn(arm.Clause, dropIdx), "CDC-8", "arm:VDROP:drops-restored-index", w.Pos(arm.Clause.Pos()), "reaches DB.DeleteVectorIndex", "the VDROP arm never removes a snapshot-restored index: a dropped index comes back after restart")
	} else {
		r.Und("CDC-8", "arm:VDROP", "", "replay arm missing")
	}
	// ... and whether it does is decided by asking the DB, never by a look-up in the aggregation map: a restored index
	// has an aggregation state only once some record of this log has touched it, so a test of the map misses every
	// index the log merely drops. (The drop call must stay reachable whichever way a test of the map turns out.)
	if arm := rt.Arms["VDROP"]; arm != nil {
		if fn := w.SSAFunc(fi.Obj); fn != nil {
			inArm := func(p token.Pos) bool { return p >= arm.Clause.Pos() && p <= arm.Clause.End() }
			drops := findInstrs(fn, func(in ssa.Instruction) bool {
				c, ok := in.(*ssa.Call)
				return ok && calleeObj(&c.Call) == dropIdx && inArm(c.Pos())
			})
			var fromAgg func(v ssa.Value, depth int) bool
			fromAgg = func(v ssa.Value, depth int) bool {
				if depth > 12 {
					return false
				}
				switch x := v.(type) {
				case *ssa.Lookup:
					if mt, ok := x.X.Type().Underlying().(*types.Map); ok && strings.HasSuffix(mt.Elem().String(), "indexState") {
						return true
					}
					return false
				case *ssa.Call, *ssa.Const, *ssa.Parameter, *ssa.Global, *ssa.FreeVar, *ssa.Alloc, *ssa.MakeClosure:
					return false
				}
				in, ok := v.(ssa.Instruction)
				if !ok {
					return false
				}
				for _, op := range in.Operands(nil) {
					if *op != nil && fromAgg(*op, depth+1) {
						return true
					}
				}
				return false
			}
			for i, d := range drops {
				dd := d
				bad := false
				var at token.Pos
				for _, b := range fn.Blocks {
					if len(b.Instrs) == 0 {
						continue
					}
					iff, ok := b.Instrs[len(b.Instrs)-1].(*ssa.If)
					if !ok || !fromAgg(iff.Cond, 0) {
						continue
					}
					for si := range b.Succs {
						reach, _ := (pathQuery{fn: fn, target: func(in ssa.Instruction) bool { return in == dd }, blocked: map[edgeKey]bool{{b, si}: true}}).find(entryPos(fn))
						if !reach {
							bad = true
							at = iff.Cond.Pos()
						}
					}
				}
				pos := w.Pos(d.Pos())
				if bad && at.IsValid() {
					pos = w.Pos(at)
				}
				r.Cond(!bad, "CDC-8", fmt.Sprintf("arm:VDROP:drop-decided-by-the-DB#%d", i+1), pos, "DB.DeleteVectorIndex stays reachable whichever way any test of the aggregation map turns out: whether a restored index is dropped is decided by asking the DB", "the VDROP arm drops the snapshot-restored index only when the aggregation map has a state for the name: a restored index gets one only once some record of this log touched it, so an index that the log merely drops (snapshot, then VDROP) is back after the restart")
			}
		}
	}
	// apply phase: deletions reach the live index
	del1 := w.FuncObj("pkg/core/hnsw", "Index.Delete")
	applies := false
	for _, d := range append([]*FuncInfo{fi}, w.helperDecls(fi)...) { // (the apply phase may be a function of its own)
		ast.Inspect(d.Decl.Body, func(n ast.Node) bool {
			if n == ast.Node(rt.Switch) {
				return false
			}
			if c, ok := n.(*ast.CallExpr); ok {
				f := typeutil.Callee(d.Pkg.TypesInfo, c)
				if fn, ok := f.(*types.Func); ok && fn.Name() == "Delete" && (fn == del1 || relPkg(fn) == "pkg/core") {
					applies = true
				}
			}
			return true
		})
	}
	r.Cond(applies, "CDC-8", "apply:deletes-from-restored-index", w.Pos(fi.Decl.Pos()), "replayed deletions are applied to the live index", "replayAOF never deletes a vector from a restored index: a vector deleted after a snapshot is back after restart")
	// the tombstone for a restored index must not depend on whether this log also holds a pending entry for the id
	// (a VMETA journaled after the snapshot creates a metadata-only pending entry for a node that lives in the snapshot)
	if fn := w.SSAFunc(fi.Obj); fn != nil {
		fieldOfLoad := func(v ssa.Value) string {
			u, ok := v.(*ssa.UnOp)
			if !ok || u.Op != token.MUL {
				return ""
			}
			fa, ok := u.X.(*ssa.FieldAddr)
			if !ok {
				return ""
			}
			_, f := structFieldName(fa.X.Type(), fa.Field)
			return f
		}
		var tomb []*ssa.MapUpdate
		var pend []*ssa.Lookup
		for _, b := range fn.Blocks {
			for _, in := range b.Instrs {
				switch x := in.(type) {
				case *ssa.MapUpdate:
					if fieldOfLoad(x.Map) == "deleted" {
						tomb = append(tomb, x)
					}
				case *ssa.Lookup:
					if x.CommaOk && fieldOfLoad(x.X) == "entries" {
						pend = append(pend, x)
					}
				}
			}
		}
		if len(tomb) == 0 {
			r.Und("CDC-8", "arm:VDEL:tombstone", w.Pos(fi.Decl.Pos()), "replayAOF no longer records deletions of snapshot-restored vectors in a `deleted` set")
		}
		for i, t := range tomb {
			bad := false
			var at token.Pos
			for _, lk := range pend {
				okv := extractOfValue(lk, 1)
				if okv == nil {
					continue
				}
				tr, fl := condEdges(okv)
				for _, e := range append(tr, fl...) {
					sb := e.from.Succs[e.succ]
					if len(sb.Preds) == 1 && (sb == t.Block() || sb.Dominates(t.Block())) {
						bad, at = true, lk.Pos()
					}
				}
			}
			pos := w.Pos(t.Pos())
			if bad {
				pos = w.Pos(at)
			}
			r.Cond(!bad, "CDC-8", fmt.Sprintf("arm:VDEL:tombstone#%d:independent-of-pending-entry", i+1), pos, "the deletion is recorded for the restored index whether or not this log holds a pending entry for the id", "the VDEL arm records the deletion for a snapshot-restored index only on one outcome of its pending-entry lookup: after SaveSnapshot, a metadata update followed by a delete of the same vector leaves no tombstone, and the deleted vector is back after restart")
		}
	}
	// apply phase: a recorded deletion is applied whether or not the log holds a later entry for the id (the re-add is
	// rejected as a duplicate by the index if the old version is still registered, and that error is swallowed)
	if fn := w.SSAFunc(fi.Obj); fn != nil {
		inSwitch := func(p token.Pos) bool { return p >= rt.Switch.Pos() && p <= rt.Switch.End() }
		fieldOfLoad := func(v ssa.Value) string {
			u, ok := v.(*ssa.UnOp)
			if !ok || u.Op != token.MUL {
				return ""
			}
			fa, ok := u.X.(*ssa.FieldAddr)
			if !ok {
				return ""
			}
			_, f := structFieldName(fa.X.Type(), fa.Field)
			return f
		}
		var dels []ssa.Instruction
		var pend []*ssa.Lookup
		for _, b := range fn.Blocks {
			for _, in := range b.Instrs {
				if inSwitch(in.Pos()) {
					continue
				}
				if c, ok := in.(*ssa.Call); ok {
					if o := calleeObj(&c.Call); o != nil && o.Name() == "Delete" && (o == del1 || relPkg(o) == "pkg/core") {
						dels = append(dels, in)
					}
				}
				if lk, ok := in.(*ssa.Lookup); ok && lk.CommaOk && fieldOfLoad(lk.X) == "entries" {
					pend = append(pend, lk)
				}
			}
		}
		for i, d := range dels {
			bad := false
			var at token.Pos
			for _, lk := range pend {
				okv := extractOfValue(lk, 1)
				if okv == nil {
					continue
				}
				tr, fl := condEdges(okv)
				for _, e := range append(tr, fl...) {
					sb := e.from.Succs[e.succ]
					if len(sb.Preds) == 1 && (sb == d.Block() || sb.Dominates(d.Block())) {
						bad, at = true, lk.Pos()
					}
				}
			}
			pos := w.Pos(d.Pos())
			if bad {
				pos = w.Pos(at)
			}
			r.Cond(!bad, "CDC-8", fmt.Sprintf("apply:delete#%d:independent-of-pending-entry", i+1), pos, "a recorded deletion is applied to the restored index whether or not the log holds an entry for the id", "replayAOF applies a recorded deletion to the snapshot-restored index only on one outcome of a look-up in the pending entries: delete + re-add of an id after a snapshot leaves the old version registered, the re-add is rejected as a duplicate (the error is swallowed), and the restart shows the old vector and metadata")
		}
		// VCREATE arm: a create record for a name that already has aggregation state (a duplicate create that the live
		// engine rejected after journaling it) must not rewrite that state: the arm writes configuration only into a
		// state object it allocated itself
		if arm := rt.Arms["VCREATE"]; arm != nil {
			n, badN := 0, 0
			var badPos token.Pos
			for _, b := range fn.Blocks {
				for _, in := range b.Instrs {
					st, ok := in.(*ssa.Store)
					if !ok || st.Pos() < arm.Clause.Pos() || st.Pos() > arm.Clause.End() {
						continue
					}
					fa, ok := st.Addr.(*ssa.FieldAddr)
					if !ok {
						continue
					}
					owner, _ := structFieldName(fa.X.Type(), fa.Field)
					if !strings.HasSuffix(owner, "indexState") {
						continue
					}
					n++
					for _, leaf := range valueRoots(fa.X) {
						if _, fresh := leaf.(*ssa.Alloc); !fresh {
							badN++
							badPos = st.Pos()
						}
					}
				}
			}
			// ... and registers its state only for a name the log does not know yet
			var regs []ssa.Instruction
			for _, b := range fn.Blocks {
				for _, in := range b.Instrs {
					mu, ok := in.(*ssa.MapUpdate)
					if !ok || mu.Pos() < arm.Clause.Pos() || mu.Pos() > arm.Clause.End() {
						continue
					}
					if mt, ok := mu.Map.Type().Underlying().(*types.Map); ok && strings.HasSuffix(mt.Elem().String(), "indexState") {
						regs = append(regs, in)
					}
				}
			}
			// "known" means known to this log OR to the snapshot: the test is a call of a helper that looks the name up in
			// the aggregation map and falls back to DB.GetVectorIndex (the restoring look-up the other arms use)
			knowsBoth := func(f *ssa.Function) bool {
				agg, db := false, false
				for _, b := range f.Blocks {
					for _, in := range b.Instrs {
						if lk, ok := in.(*ssa.Lookup); ok {
							if mt, ok := lk.X.Type().Underlying().(*types.Map); ok && strings.HasSuffix(mt.Elem().String(), "indexState") {
								agg = true
							}
						}
						if c, ok := in.(*ssa.Call); ok && calleeObj(&c.Call) == getIdx {
							db = true
						}
					}
				}
				return agg && db
			}
			isKnownTest := func(in ssa.Instruction) bool {
				c, ok := in.(*ssa.Call)
				if !ok {
					return false
				}
				for _, leaf := range valueRoots(c.Call.Value) {
					if mc, ok := leaf.(*ssa.MakeClosure); ok {
						if cf, ok := mc.Fn.(*ssa.Function); ok && knowsBoth(cf) {
							return true
						}
					}
				}
				if g := c.Call.StaticCallee(); g != nil && knowsBoth(g) {
					return true
				}
				return false
			}
			for i, rg := range regs {
				rr := rg
				ok, wit := false, []ssa.Instruction(nil)
				if len(findInstrs(fn, isKnownTest)) > 0 {
					ok, wit = mustPassGuard(fn, func(in ssa.Instruction) bool { return in == rr }, isKnownTest, func(in ssa.Instruction) ssa.Value { return extractOfValue(in.(*ssa.Call), 1) }, false, nil)
				}
				r.Cond(ok, "CDC-8", fmt.Sprintf("arm:VCREATE:registers-only-unknown-names#%d", i+1), w.Pos(rg.Pos()), "the state is put into the aggregation map only on the unknown edge of a look-up that consults both the log's own states and the snapshot-restored indexes", "the VCREATE arm registers an aggregation state for a name that is already known — to this log, or to the snapshot (a test of the aggregation map alone does not see restored indexes): a duplicate VCREATE, journaled by the live engine before it rejected the request with 'already exists', replaces or masks the state of the existing index, and later VADD/VDEL/VMETA records for it are lost at the next restart", w.witness(wit)...)
			}
			if len(regs) == 0 {
				r.Und("CDC-8", "arm:VCREATE:registers-only-unknown-names", w.Pos(arm.Clause.Pos()), "the VCREATE arm no longer registers an aggregation state (shape not recognised)")
			}
			if n == 0 {
				r.Und("CDC-8", "arm:VCREATE:fresh-state-only", w.Pos(arm.Clause.Pos()), "the VCREATE arm no longer stores configuration into an aggregation state (shape not recognised)")
			} else {
				pos := w.Pos(arm.Clause.Pos())
				if badN > 0 {
					pos = w.Pos(badPos)
				}
				r.Cond(badN == 0, "CDC-8", "arm:VCREATE:fresh-state-only", pos, fmt.Sprintf("all %d configuration stores of the arm go into a state object the arm allocated itself", n), "the VCREATE arm writes configuration into an aggregation state it looked up: a duplicate VCREATE (journaled by the live engine before it rejected the request) rewrites metric, precision and options of the existing index on the next restart")
			}
		}
	}
	// apply phase: a configuration value the log sets is applied also when it is EMPTY (rules cleared, list emptied):
	// no setter of the live index is reached only on the non-empty edge of a length test of the value it sets
	if fn := w.SSAFunc(fi.Obj); fn != nil {
		k := 0
		for _, in := range findInstrs(fn, func(in ssa.Instruction) bool {
			c, ok := in.(*ssa.Call)
			if !ok {
				return false
			}
			o := calleeObj(&c.Call)
			return o != nil && relPkg(o) == "pkg/core/hnsw" && strings.HasPrefix(o.Name(), "Set") && len(c.Call.Args) == 2
		}) {
			c := in.(*ssa.Call)
			arg := c.Call.Args[1]
			if !isSliceType(arg.Type()) {
				continue
			}
			k++
			bad := false
			var at token.Pos
			for _, b := range fn.Blocks {
				for _, x := range b.Instrs {
					bo, ok := x.(*ssa.BinOp)
					if !ok {
						continue
					}
					var lenCall *ssa.Call
					for _, o := range []ssa.Value{bo.X, bo.Y} {
						if lc, ok := o.(*ssa.Call); ok {
							if _, isLen := isBuiltinCall(lc, "len"); isLen && len(lc.Call.Args) == 1 && sameVal(lc.Call.Args[0], arg) {
								lenCall = lc
							}
						}
					}
					if lenCall == nil {
						continue
					}
					t, f := condEdges(bo)
					for _, e := range append(t, f...) {
						sb := e.from.Succs[e.succ]
						if len(sb.Preds) == 1 && (sb == in.Block() || sb.Dominates(in.Block())) {
							bad, at = true, bo.Pos()
						}
					}
				}
			}
			pos := w.Pos(in.Pos())
			if bad {
				pos = w.Pos(at)
			}
			r.Cond(!bad, "CDC-8", fmt.Sprintf("apply:%s#%d:also-for-the-empty-value", calleeObj(&c.Call).Name(), k), pos, "the setting is applied whatever the length of the value", "replayAOF applies "+calleeObj(&c.Call).Name()+" to the live index only when the journaled value is non-empty: clearing the setting (an empty list) after a snapshot is not applied to the snapshot-restored index, and the old value is back after the restart")
		}
	}
	// KV: a DEL must reach the restored store, not only the aggregation map of this log
	kvDel := w.FuncObj("pkg/core", "KVStore.Delete")
	if arm := rt.Arms["DEL"]; arm != nil && kvDel != nil {
		r.Cond(callsFn(arm.Clause, kvDel), "CDC-8", "arm:DEL:deletes-from-restored-store", w.Pos(arm.Clause.Pos()), "reaches KVStore.Delete", "the DEL arm only forgets a SET of the same log: a key that came back with the snapshot survives a delete journaled after that snapshot and is back after restart")
	} else {
		r.Und("CDC-8", "arm:DEL", "", "replay arm (or KVStore.Delete) missing")
	}
}
