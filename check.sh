#!/bin/sh
# usage: ./check.sh <Cxx> [quick|thorough]   — cwd-independent; rebuilds the analyser if its sources are newer.
cd "$(dirname "$0")"
id="$1"; tier="${2:-${VERIF_TIER:-quick}}"
need=0
[ -x bin/kvlint ] || need=1
if [ $need = 0 ] && [ -n "$(find checker -name '*.go' -newer bin/kvlint 2>/dev/null | head -1)" ]; then need=1; fi
if [ $need = 1 ]; then ./setup.sh >/dev/null || { echo "VIOLATION property=$id replay=setup-failed"; exit 1; }; fi
exec ./bin/kvlint check "$id" --tier "$tier" --repo /repo --verif "$(pwd)"
