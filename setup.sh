#!/bin/sh
# Builds bin/kvlint from /verif/checker, offline (module cache only).
set -e
cd "$(dirname "$0")"
export GOFLAGS=-mod=mod GOPROXY=off GOSUMDB=off GOTOOLCHAIN=local GOWORK=off
export PATH=/opt/veriftools/go1.26.8/bin:$PATH
mkdir -p bin evidence out
(cd checker && go build -o ../bin/kvlint .)
echo "built bin/kvlint"
