#!/usr/bin/env python3
"""Re-run every registered check against the filed seeds (after the checker changed) and update
/verif/seeded/<label>/meta.json: confirmed.kvlint_reports, confirmed.kvlint_rechecked_at.

usage: tools/seed_recheck.py [label ...]      (default: all)
Applies each patch in a scratch worktree of /repo HEAD under /tmp (removed afterwards); at most 5 checks run
at a time (each loads the whole program). With --own only the seed's own property and the properties that reported
it at the last full run are re-checked (a fifth of the work; new cross-property reports are not discovered)."""
import json, glob, os, re, subprocess, sys
from concurrent.futures import ThreadPoolExecutor
ENV = dict(os.environ, GOFLAGS="-mod=mod", GOPROXY="off", GOSUMDB="off", GOTOOLCHAIN="local", GOWORK="off",
           PATH="/opt/veriftools/go1.26.8/bin:" + os.environ["PATH"])
OWN = "--own" in sys.argv  # only the seed's own property and the properties that reported it before
sys.argv = [a for a in sys.argv if a != "--own"]
labels = sys.argv[1:] or [os.path.basename(d.rstrip('/')) for d in sorted(glob.glob('/verif/seeded/*/'))]
ids = [l.split()[0] for l in subprocess.check_output("/verif/bin/kvlint list", shell=True, text=True).split("\n") if l.strip()]
head = subprocess.check_output("git -C /repo rev-parse --short HEAD", shell=True, text=True).strip()
wt = "/tmp/seedrc.%d" % os.getpid()
subprocess.run("git -C /repo worktree prune; git -C /repo worktree add -q --detach %s HEAD" % wt, shell=True, check=True)
try:
    for label in labels:
        d = "/verif/seeded/" + label
        subprocess.run("git checkout -q -- . && git clean -fdq", shell=True, cwd=wt)
        if subprocess.run("git apply %s/patch.diff" % d, shell=True, cwd=wt).returncode != 0:
            print(label + ": PATCH-DOES-NOT-APPLY on " + head)
            continue
        def run(i):
            p = subprocess.run("/verif/bin/kvlint check %s --tier quick --no-write --repo %s --verif /verif" % (i, wt), shell=True, stdout=subprocess.PIPE, stderr=subprocess.STDOUT, text=True, env=ENV)
            return i, p.stdout
        caught = {}
        m = json.load(open(d + "/meta.json"))
        todo = ids
        if OWN:
            todo = sorted(set([m["property"]] + list(m["confirmed"].get("kvlint_reports", {}).keys())))
        with ThreadPoolExecutor(max_workers=5) as ex:
            for i, o in ex.map(run, todo):
                reps = re.findall(r"rule=(\S+) verdict=(?:violation|undecided) construct=(\S+)", o)
                if reps:
                    caught[i] = sorted({"%s %s" % (a, b) for a, b in reps})
        m["confirmed"]["kvlint_reports"] = caught
        m["confirmed"]["kvlint_rechecked_at"] = head
        json.dump(m, open(d + "/meta.json", "w"), indent=1, ensure_ascii=False)
        print("%s: %s" % (label, ",".join(sorted(caught)) or "MISSED"), flush=True)
finally:
    subprocess.run("git -C /repo worktree remove --force %s 2>/dev/null; rm -rf %s" % (wt, wt), shell=True)
