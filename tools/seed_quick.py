#!/usr/bin/env python3
"""Development aid: run ONE binary's check of each seed's own property (and the properties that caught it before)
against the seed applied in a scratch worktree.  usage: tools/seed_quick.py <kvlint-binary> [label ...]"""
import json, glob, os, re, subprocess, sys
from concurrent.futures import ThreadPoolExecutor
ENV = dict(os.environ, GOFLAGS="-mod=mod", GOPROXY="off", GOSUMDB="off", GOTOOLCHAIN="local", GOWORK="off",
           PATH="/opt/veriftools/go1.26.8/bin:" + os.environ["PATH"])
exe = sys.argv[1]
labels = sys.argv[2:] or [os.path.basename(d.rstrip('/')) for d in sorted(glob.glob('/verif/seeded/*/'))]
wt = "/tmp/seedq.%d" % os.getpid()
subprocess.run("git -C /repo worktree prune; git -C /repo worktree add -q --detach %s HEAD" % wt, shell=True, check=True)
try:
    for label in labels:
        d = "/verif/seeded/" + label
        m = json.load(open(d + "/meta.json"))
        subprocess.run("git checkout -q -- . && git clean -fdq", shell=True, cwd=wt)
        if subprocess.run("git apply %s/patch.diff" % d, shell=True, cwd=wt).returncode != 0:
            print(label + ": PATCH-DOES-NOT-APPLY"); continue
        ids = sorted(set([m["property"]] + list(m["confirmed"].get("kvlint_reports", {}).keys())))
        def run(i):
            p = subprocess.run("%s check %s --tier quick --no-write --repo %s --verif /verif" % (exe, i, wt), shell=True, stdout=subprocess.PIPE, stderr=subprocess.STDOUT, text=True, env=ENV)
            return i, sorted(set(re.findall(r"rule=(\S+) verdict=(?:violation|undecided)", p.stdout)))
        with ThreadPoolExecutor(max_workers=4) as ex:
            res = dict(ex.map(run, ids))
        before = m["confirmed"].get("kvlint_reports", {})
        line = []
        for i in ids:
            was = sorted({x.split()[0] for x in before.get(i, [])})
            now = res[i]
            flag = "" if was == now else "   <-- CHANGED (was %s)" % was
            line.append("%s:%s%s" % (i, ",".join(now) or "-", flag))
        print(label + "  " + "  ".join(line), flush=True)
finally:
    subprocess.run("git -C /repo worktree remove --force %s 2>/dev/null; rm -rf %s" % (wt, wt), shell=True)
