#!/usr/bin/env python3
"""Confirm and sweep a behaviour-preserving refactoring written by a sub-agent.

usage: ref_confirm.py <srcdir> <label> [--no-suite]

<srcdir> holds patch.diff and meta.json as the sub-agent delivered them. The patch is applied to a scratch worktree of
/repo HEAD (under /tmp, removed afterwards), the tree is built, the project's test suite is run inside a private network
namespace, and every registered check is run against the patched tree. The result goes to
/verif/refactorings/<label>/ : patch.diff, meta.json (the agent's record plus "confirmed": suite result, the checks that
reported it at this first sweep, and "also": the properties other than its own under which it is replayed by the
thorough tier). A refactoring that is reported is a FALSE ALARM to be corrected in the checker (or, if reading the patch
shows that it does change behaviour, it is not archived as a refactoring at all).
"""
import json, os, re, subprocess, sys, shutil, time

ENV = dict(os.environ, GOFLAGS="-mod=mod", GOPROXY="off", GOSUMDB="off", GOTOOLCHAIN="local", GOWORK="off",
           PATH="/opt/veriftools/go1.26.8/bin:" + os.environ["PATH"])
KVLINT = os.environ.get("KVLINT", "/verif/bin/kvlint")


def sh(cmd, cwd=None, timeout=3600):
    p = subprocess.run(cmd, shell=True, cwd=cwd, stdout=subprocess.PIPE, stderr=subprocess.STDOUT, text=True, env=ENV, timeout=timeout)
    return p.returncode, p.stdout


def main():
    src, label = sys.argv[1], sys.argv[2]
    no_suite = "--no-suite" in sys.argv
    meta = json.load(open(os.path.join(src, "meta.json")))
    prop = label.split("-")[0]
    wt = "/tmp/refc-%s" % label
    sh("git -C /repo worktree prune; rm -rf %s; git -C /repo worktree add -q --detach %s HEAD" % (wt, wt))
    conf = {"head": sh("git -C /repo rev-parse --short HEAD")[1].strip(), "at": time.strftime("%Y-%m-%d %H:%M")}
    try:
        rc, out = sh("git apply %s/patch.diff" % os.path.abspath(src), cwd=wt)
        conf["applies"] = rc == 0
        if rc != 0:
            conf["note"] = out[-400:]
        else:
            rc, out = sh("go1.26.8 build ./... && go1.26.8 test -vet=off -count=1 -run '^$' ./... > /dev/null", cwd=wt)
            conf["builds"] = rc == 0
            if rc != 0:
                conf["note"] = out[-600:]
            elif not no_suite:
                rc, out = sh('unshare -rn sh -c "ip link set lo up; go1.26.8 test -vet=off -count=1 -timeout 25m ./..." 2>&1', cwd=wt)
                fails = sorted(set(re.findall(r"^--- FAIL: (\S+)", out, re.M)))
                conf["suite_failures"] = fails
                conf["suite_passes"] = all(f == "TestDownloadEnsureModelCreatesDir" for f in fails) and "panic:" not in out
            if conf.get("builds"):
                ids = [l.split()[0] for l in sh(KVLINT + " list")[1].split("\n") if l.strip()]
                reports = {}
                for i in ids:
                    rc, out = sh("%s check %s --tier quick --no-write --repo %s --verif /verif" % (KVLINT, i, wt))
                    seen = sorted(set(m[0] + ":" + m[2] for m in re.findall(r"rule=(\S+) verdict=(violation|undecided) construct=(\S+)", out)))
                    if seen:
                        reports[i] = seen
                conf["kvlint_reports"] = reports
    finally:
        sh("git -C /repo worktree remove --force %s; rm -rf %s" % (wt, wt))
    dst = "/verif/refactorings/%s" % label
    os.makedirs(dst, exist_ok=True)
    shutil.copy(os.path.join(src, "patch.diff"), dst + "/patch.diff")
    meta["confirmed"] = conf
    meta["also"] = sorted(k for k in conf.get("kvlint_reports", {}) if k != prop)
    json.dump(meta, open(dst + "/meta.json", "w"), indent=1, ensure_ascii=False)
    print(label, "applies" if conf.get("applies") else "NO-APPLY", "builds" if conf.get("builds") else "NO-BUILD",
          "suite-ok" if conf.get("suite_passes") else ("suite-skipped" if no_suite else "SUITE-FAILS %s" % conf.get("suite_failures")),
          "reports:", conf.get("kvlint_reports"))


if __name__ == "__main__":
    main()
