#!/usr/bin/env python3
"""Re-confirm filed seeds against the current /repo HEAD (after a fix: commit moved it).

usage: tools/seed_reconfirm.py <label> [ported.diff]

Rebuilds the sub-agent's source directory from /verif/seeded/<label>/ (patch, demonstration, meta) in a temp
directory and runs tools/seed_confirm.py on it, which repeats the whole confirmation (apply, build, demonstration
with/without the patch, the repository's suite with the patch, every registered check) in a scratch worktree
of HEAD. With a second argument that file is used as the patch ported to HEAD."""
import json, os, shutil, subprocess, sys, tempfile
label = sys.argv[1]
d = "/verif/seeded/" + label
m = json.load(open(d + "/meta.json"))
src = tempfile.mkdtemp(prefix="reseed-")
shutil.copy(d + "/patch.diff", src + "/patch.diff")
if len(sys.argv) > 2:
    shutil.copy(sys.argv[2], src + "/patch.ported.diff")
for f in os.listdir(d + "/demo"):
    shutil.copy(d + "/demo/" + f, src + "/" + f)
meta = {k: m.get(k) for k in ("property", "summary", "needs_to_manifest", "files_changed")}
meta["demo_files"] = m["demo_files"]
meta["demo_cmd"] = m["confirmed"].get("demo_cmd", "")
json.dump(meta, open(src + "/meta.json", "w"))
keep = {k: m["confirmed"][k] for k in ("suite_note",) if k in m["confirmed"]}
rc = subprocess.call(["python3", "/verif/tools/seed_confirm.py", src, label])
shutil.rmtree(src, ignore_errors=True)
if keep:
    m2 = json.load(open(d + "/meta.json"))
    m2["confirmed"].update(keep)
    json.dump(m2, open(d + "/meta.json", "w"), indent=1, ensure_ascii=False)
sys.exit(rc)
