#!/usr/bin/env python3
"""Regenerate the table of archived refactorings in DESIGN.md (between <!-- refs:begin --> and <!-- refs:end -->)."""
import json, glob, os, re
rows = []
for d in sorted(glob.glob("/verif/refactorings/*"), key=lambda p: (os.path.basename(p).split("-")[0], int(os.path.basename(p).split("-r")[1]))):
    l = os.path.basename(d)
    m = json.load(open(d + "/meta.json"))
    c = m.get("confirmed", {})
    first = c.get("kvlint_reports", {})
    rules = sorted(set(x.split(":")[0] for v in first.values() for x in v))
    now = c.get("rechecked", {})
    nowtxt = "quiet" if now and now.get("applies") and not now.get("reports") else ("—" if not now else "REPORTED")
    summ = (m.get("summary") or "").replace("|", "/").replace("\n", " ")
    if len(summ) > 170:
        summ = summ[:170] + "…"
    rows.append("| %s | %s | %s | %s | %s |" % (l, (m.get("kind") or "").replace("|", "/")[:70], summ, ("quiet" if not rules else "reported by " + ", ".join(rules)), nowtxt))
tbl = "| refactoring | kind | what was rewritten | first sweep | last full sweep |\n|---|---|---|---|---|\n" + "\n".join(rows)
s = open("/verif/DESIGN.md").read()
a, b = "<!-- refs:begin -->", "<!-- refs:end -->"
if a in s:
    s = s[:s.index(a) + len(a)] + "\n" + tbl + "\n" + s[s.index(b):]
    open("/verif/DESIGN.md", "w").write(s)
print(len(rows), "refactorings")
