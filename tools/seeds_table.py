#!/usr/bin/env python3
"""Regenerate the seeds table of DESIGN.md §10.6 from /verif/seeded/*/meta.json (between the two markers)."""
import json, glob, os, re
rows = []
for d in sorted(glob.glob('/verif/seeded/*/')):
    m = json.load(open(d + 'meta.json'))
    c = m['confirmed']
    label = os.path.basename(d.rstrip('/'))
    summ = (m.get('summary') or '').replace('\n', ' ').replace('|', '/')
    summ = re.sub(r'\s+', ' ', summ)
    short = summ[:230] + ('…' if len(summ) > 230 else '')
    need = re.sub(r'\s+', ' ', (m.get('needs_to_manifest') or '').replace('|', '/'))[:150]
    caught = []
    for pid, reps in sorted(c.get('kvlint_reports', {}).items()):
        rules = sorted({r.split()[0] for r in reps})
        caught.append('%s (%s)' % (pid, ', '.join(rules)))
    if c.get('neutralised'):
        status = 'neutralised by a later fix'
    elif not caught:
        status = '**missed**'
    else:
        status = '; '.join(caught)
    conf = 'demo fails with / passes without: %s/%s; suite with patch: %s' % (
        'yes' if c.get('demo_fails_with_patch') else 'NO', 'yes' if c.get('demo_passes_without_patch') else 'NO',
        'passes' if c.get('suite_passes_with_patch') else 'FAILS')
    if c.get('patch_ported'):
        conf += '; patch ported'
    rows.append('| %s | %s | %s | %s | %s |' % (label, short, need, conf, status))
table = '| seed | change | needs | confirmation on current HEAD | reported by |\n|---|---|---|---|---|\n' + '\n'.join(rows)
p = '/verif/DESIGN.md'
s = open(p).read()
if '<<SEEDS_TABLE>>' in s:
    s = s.replace('<<SEEDS_TABLE>>', '<!-- seeds:begin -->\n' + table + '\n<!-- seeds:end -->')
else:
    s = re.sub(r'<!-- seeds:begin -->.*?<!-- seeds:end -->', '<!-- seeds:begin -->\n' + table.replace('\\', '\\\\') + '\n<!-- seeds:end -->', s, flags=re.S)
open(p, 'w').write(s)
print(len(rows), 'seeds')
