#!/usr/bin/env python3
"""Confirm one seeded change and file it under /verif/seeded/<label>/.

usage: tools/seed_confirm.py <source-dir> <label>

<source-dir> holds what the seeding sub-agent produced: patch.diff (optionally patch.ported.diff, my port of
the patch to the current /repo HEAD), meta.json and the demonstration test file(s). Everything runs in a
scratch worktree of /repo HEAD under /tmp (never in /repo) that is removed afterwards:

  1. apply the patch, build, compile all tests
  2. demonstration WITH the patch (must fail)
  3. the repository's own test suite with the patch, demonstration file removed (must pass)
  4. every registered kvlint check against the patched tree (which rules report it)
  5. demonstration WITHOUT the patch (must pass)

The outcome is written to /verif/seeded/<label>/meta.json next to patch.diff and demo/.
"""
import json, os, re, shutil, subprocess, sys

ENV = dict(os.environ, GOFLAGS="-mod=mod", GOPROXY="off", GOSUMDB="off", GOTOOLCHAIN="local", GOWORK="off",
           PATH="/opt/veriftools/go1.26.8/bin:" + os.environ["PATH"])


def sh(cmd, cwd, timeout=1800):
    p = subprocess.run(cmd, cwd=cwd, env=ENV, shell=True, stdout=subprocess.PIPE, stderr=subprocess.STDOUT, timeout=timeout, text=True)
    return p.returncode, p.stdout


def isolated(cmd):
    # own network namespace: pkg/client's e2e tests bind fixed ports
    return "unshare -rn bash -c 'ip link set lo up; %s'" % cmd.replace("'", "'\\''")


def main():
    src, label = sys.argv[1].rstrip("/"), sys.argv[2]
    meta = json.load(open(os.path.join(src, "meta.json")))
    wt = "/tmp/seedc/" + label
    subprocess.run("git -C /repo worktree prune; rm -rf %s; mkdir -p /tmp/seedc" % wt, shell=True)
    subprocess.run("git -C /repo worktree add -q --detach %s HEAD" % wt, shell=True, check=True)
    out = {"repo_head": subprocess.check_output("git -C /repo rev-parse --short HEAD", shell=True, text=True).strip(), "ran": []}
    try:
        patch = os.path.join(src, "patch.ported.diff")
        out["patch_ported"] = os.path.exists(patch)
        if not out["patch_ported"]:
            patch = os.path.join(src, "patch.diff")
        rc, o = sh("git apply %s" % patch, wt)
        out["applies"] = rc == 0
        out["ran"].append("git apply patch.diff   (in a scratch worktree of /repo at %s)" % out["repo_head"])
        if rc != 0:
            out["apply_error"] = o[-400:]
            return finish(src, label, meta, out, None, wt)
        rc, applied = sh("git diff HEAD", wt)
        rc, o = sh("go build ./... && go test -vet=off -count=1 -run '^$' ./... > /dev/null", wt)
        out["compiles"] = rc == 0
        out["ran"].append("go build ./... && go test -run '^$' ./...")
        if rc != 0:
            out["compile_error"] = o[-600:]
            return finish(src, label, meta, out, applied, wt)
        # demonstration command: go test -run <pattern> <pkgs>
        dc = meta.get("demo_cmd", "")
        m = re.search(r"-run[ =]+('[^']*'|\"[^\"]*\"|\S+)", dc)
        pat = m.group(1).strip("'\"") if m else "."
        pkgs = sorted({"./" + os.path.dirname(d).strip("/") for d in meta.get("demo_files", {}).values()})
        race = " -race" if "-race" in dc else ""
        demo = "go test -vet=off%s -count=1 -run '%s' %s" % (race, pat, " ".join(pkgs))
        out["demo_cmd"] = demo

        def put_demo(on):
            for f, dst in meta.get("demo_files", {}).items():
                d = os.path.join(wt, dst)
                if on:
                    os.makedirs(os.path.dirname(d), exist_ok=True)
                    shutil.copy(os.path.join(src, f), d)
                elif os.path.exists(d):
                    os.remove(d)

        put_demo(True)
        rc, o = sh(isolated(demo), wt, 1200)
        out["demo_fails_with_patch"] = rc != 0 and "[build failed]" not in o and "[setup failed]" not in o
        out["demo_with_patch_tail"] = "\n".join([l for l in o.splitlines() if not re.match(r"^(time=|20\d\d/|\{)", l)][-12:])
        out["ran"].append("demonstration with the patch: " + demo)
        put_demo(False)
        rc, o = sh(isolated("go test -vet=off -count=1 -timeout 25m ./..."), wt, 2400)
        fails = [l for l in o.splitlines() if re.match(r"^(--- FAIL|FAIL\s)", l) and "TestDownloadEnsureModelCreatesDir" not in l and "pkg/embeddings" not in l]
        out["suite_passes_with_patch"] = not fails
        if fails:
            out["suite_fails"] = fails[:10]
        out["ran"].append("repository test suite with the patch (demo file removed): go test -vet=off -count=1 ./...  — the offline-only failure of pkg/embeddings TestDownloadEnsureModelCreatesDir is ignored")
        # kvlint
        ids = subprocess.check_output("/verif/bin/kvlint list", shell=True, text=True).split("\n")
        ids = [l.split()[0] for l in ids if l.strip()]
        caught = {}
        from concurrent.futures import ThreadPoolExecutor

        def run_check(i):
            p = subprocess.run("/verif/bin/kvlint check %s --tier quick --no-write --repo %s --verif /verif" % (i, wt), shell=True, stdout=subprocess.PIPE, stderr=subprocess.STDOUT, text=True, env=ENV)
            return i, p.stdout

        with ThreadPoolExecutor(max_workers=3) as ex:  # each check loads the whole program (~1 GB)
            for i, o in ex.map(run_check, ids):
                reps = re.findall(r"rule=(\S+) verdict=(?:violation|undecided) construct=(\S+)", o)
                if reps:
                    caught[i] = sorted({"%s %s" % (a, b) for a, b in reps})
        out["kvlint_reports"] = caught
        out["ran"].append("every registered check: kvlint check <id> --tier quick --no-write --repo <patched worktree>")
        # without the patch
        sh("git checkout -q -- . && git clean -fdq", wt)
        put_demo(True)
        rc, o = sh(isolated(demo), wt, 1200)
        out["demo_passes_without_patch"] = rc == 0
        if rc != 0:
            out["demo_without_patch_tail"] = "\n".join(o.splitlines()[-12:])
        out["ran"].append("demonstration without the patch: " + demo)
        return finish(src, label, meta, out, applied, wt)
    finally:
        subprocess.run("git -C /repo worktree remove --force %s 2>/dev/null; rm -rf %s" % (wt, wt), shell=True)


def finish(src, label, meta, out, applied, wt):
    dst = "/verif/seeded/" + label
    shutil.rmtree(dst, ignore_errors=True)
    os.makedirs(dst + "/demo")
    if applied is not None:
        open(dst + "/patch.diff", "w").write(applied)
    else:
        shutil.copy(os.path.join(src, "patch.diff"), dst + "/patch.diff")
    for f, d in meta.get("demo_files", {}).items():
        shutil.copy(os.path.join(src, f), dst + "/demo/" + os.path.basename(f))
    rec = {
        "property": meta.get("property"),
        "summary": meta.get("summary"),
        "needs_to_manifest": meta.get("needs_to_manifest"),
        "files_changed": meta.get("files_changed"),
        "demo_files": {os.path.basename(f): d for f, d in meta.get("demo_files", {}).items()},
        "origin": "written by a fresh sub-agent that saw only the property text and its own scratch worktree of /repo; confirmed by tools/seed_confirm.py",
        "confirmed": out,
    }
    json.dump(rec, open(dst + "/meta.json", "w"), indent=1, ensure_ascii=False)
    k = out.get("kvlint_reports", {})
    print("%s: applies=%s compiles=%s suite=%s demo_with_fails=%s demo_without_passes=%s caught_by=%s" % (
        label, out.get("applies"), out.get("compiles"), out.get("suite_passes_with_patch"), out.get("demo_fails_with_patch"),
        out.get("demo_passes_without_patch"), ",".join(sorted(k)) or "-"), flush=True)


main()
