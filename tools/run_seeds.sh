#!/bin/bash
# usage: tools/run_seeds.sh [seed-dir ...]   (default: every /verif/seeded/*/ and /tmp/wt-out/C*/mut*)
# Applies each seeded patch to a scratch worktree of /repo HEAD (never /repo itself), runs every registered kvlint
# check against it (quick tier, no evidence written) and prints which checks raise a VIOLATION. Removes the worktree.
set -u
export GOFLAGS=-mod=mod GOPROXY=off GOSUMDB=off GOTOOLCHAIN=local GOWORK=off
wt=/tmp/seedwt.$$
git -C /repo worktree prune
git -C /repo worktree add -q --detach "$wt" HEAD || exit 2
trap 'git -C /repo worktree remove --force "$wt" 2>/dev/null; rm -rf "$wt"' EXIT
dirs=("$@")
if [ ${#dirs[@]} -eq 0 ]; then dirs=(/verif/seeded/*/ /tmp/wt-out/C*/mut*/); fi
props=$(/verif/bin/kvlint list | cut -d' ' -f1)
for d in "${dirs[@]}"; do
  d=${d%/}
  [ -f "$d/patch.diff" ] || continue
  label=$(basename $(dirname $d))-$(basename $d)
  git -C "$wt" checkout -q -- . ; git -C "$wt" clean -fdq
  if ! git -C "$wt" apply "$d/patch.diff" 2>/dev/null && ! git -C "$wt" apply --3way "$d/patch.diff" 2>/dev/null; then echo "$label: PATCH-DOES-NOT-APPLY"; continue; fi
  out=$(echo $props | tr ' ' '\n' | xargs -P 8 -I{} sh -c '/verif/bin/kvlint check {} --tier quick --no-write --repo '"$wt"' --verif /verif 2>&1 | grep -A1 "^VIOLATION" | grep "rule=" | sed "s/^/{} /"' )
  if [ -z "$out" ]; then echo "$label: MISSED"; else echo "$label: CAUGHT"; echo "$out" | sed 's/ verdict=violation//; s/site=.*//' | sort -u | sed 's/^/    /'; fi
done
