#!/usr/bin/env python3
"""Generates /verif/MANIFEST.json from the table below (single source of truth for the interface)."""
import json, os, sys
here = os.path.dirname(os.path.dirname(os.path.abspath(__file__)))

# id -> (design section, what is decided (level text), trusted base / not covered, technique)
CLAIMS = {}
exec(open(os.path.join(here, "tools", "claims.py")).read())

ALL = ["C%02d" % i for i in range(1, 21)]
checks = []
na = []
for pid in ALL:
    if pid in CLAIMS:
        c = CLAIMS[pid]
        checks.append({
            "property_id": pid,
            "quick_cmd": "./check.sh %s quick" % pid,
            "thorough_cmd": "./check.sh %s thorough" % pid,
            "evidence_file": "evidence/%s.json" % pid,
            "replay_cmd_template": "./bin/kvlint explain {path}",
            "engine": "kvlint",
            "level_claimed": {"category": "other", "text": c["text"], "design_ref": c["ref"]},
            "level_note": c["note"],
            "technique": c["technique"],
        })
    else:
        na.append({"property_id": pid, "reason": NOT_APPLICABLE.get(pid, "no sound static rule built yet for this property (see DESIGN.md)")})

m = {
    "version": 1,
    "setup_cmd": "./setup.sh",
    "hooks": {
        "guard": "verif",
        "enable": "none needed: static analysis reads /repo's working tree; no instrumentation is compiled in",
        "baseline_off_cmd": "cd /repo && GOFLAGS=-mod=mod go test -vet=off -count=1 -timeout 25m ./...",
        "source_commits": [],
        "add_only": True,
    },
    "engines": [{
        "name": "kvlint",
        "path": "checker/",
        "serves_properties": sorted(CLAIMS),
        "kind_free_text": "repository-specific static analyser (go/packages + go/types + go/ssa + VTA/CHA call graph, x/tools v0.50.0): table agreement, must-pass-through / dominance path queries, call-graph layering, lock-discipline dataflow",
    }],
    "checks": checks,
    "not_applicable": na,
    "notes": "All claims are level 'other': an exhaustive static decision of structural NECESSARY conditions of each property on the current tree, never of the behaviour itself. known_findings.json lists genuine defects left unrepaired (printed as KNOWN-FINDING, exit 0).",
}
json.dump(m, open(os.path.join(here, "MANIFEST.json"), "w"), indent=1)
print("checks:", len(checks), "not_applicable:", len(na))
