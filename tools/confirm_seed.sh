#!/bin/bash
# usage: tools/confirm_seed.sh <src-dir with patch.diff, meta.json, demo files> <label>
# Confirms a seeded change in a scratch worktree of /repo HEAD (never in /repo): applies, builds, runs the suite,
# runs the demonstration with and without the patch, then runs every kvlint check against the patched scratch tree.
# Writes <src-dir>/confirm.json and removes the worktree.
set -u
src="$1"; label="$2"
export GOFLAGS=-mod=mod GOPROXY=off GOSUMDB=off GOTOOLCHAIN=local GOWORK=off
export PATH=/opt/veriftools/go1.26.8/bin:$PATH
wt=/tmp/confirm/$label
rm -rf "$wt"; git -C /repo worktree prune; mkdir -p /tmp/confirm
git -C /repo worktree add -q --detach "$wt" HEAD || exit 2
cleanup() { git -C /repo worktree remove --force "$wt" 2>/dev/null; rm -rf "$wt"; }
trap cleanup EXIT
cd "$wt"
res() { python3 - "$@" <<'PY'
import json,sys
p=sys.argv[1]; k=sys.argv[2]; v=sys.argv[3]
try: d=json.load(open(p))
except Exception: d={}
try: v=json.loads(v)
except Exception: pass
d[k]=v
json.dump(d,open(p,'w'),indent=1)
PY
}
out="$src/confirm.json"; rm -f "$out"
res "$out" repo_head "\"$(git -C /repo rev-parse --short HEAD)\""
if ! git apply --check "$src/patch.diff" 2>/tmp/confirm/$label.applyerr; then
  if git apply --3way "$src/patch.diff" 2>>/tmp/confirm/$label.applyerr; then res "$out" applies '"3way"'; else res "$out" applies false; echo "$label: patch does not apply"; exit 1; fi
else git apply "$src/patch.diff"; res "$out" applies true; fi
if go build ./... 2>/tmp/confirm/$label.build && go test -count=1 -run '^$' ./... >/dev/null 2>>/tmp/confirm/$label.build; then res "$out" compiles true; else res "$out" compiles false; echo "$label: does not compile"; exit 1; fi
# suite
# isolated network namespace: pkg/client's e2e tests bind fixed ports that collide with other jobs on this machine
unshare -rn bash -c 'ip link set lo up; go test -vet=off -count=1 -timeout 25m ./...' > /tmp/confirm/$label.suite 2>&1
fails=$(grep -E '^--- FAIL|^FAIL\s' /tmp/confirm/$label.suite | grep -v 'TestDownloadEnsureModelCreatesDir' | grep -v 'pkg/embeddings' | grep -v '^FAIL$' | tr '\n' ';')
# pkg/client's e2e tests bind a fixed port (19091): concurrent suites on this machine collide. Retry that package alone.
if [ -n "$fails" ] && ! grep -E '^FAIL\s' /tmp/confirm/$label.suite | grep -v 'pkg/embeddings' | grep -qv 'pkg/client\s'; then
  for try in 1 2 3 4 5; do
    sleep $((RANDOM % 20))
    if unshare -rn bash -c 'ip link set lo up; go test -vet=off -count=1 ./pkg/client/' > /tmp/confirm/$label.suite.client 2>&1; then fails=""; break; fi
  done
fi
if [ -z "$fails" ]; then res "$out" suite_passes true; else res "$out" suite_passes false; res "$out" suite_fails "\"$fails\""; fi
# demo files
python3 - "$src" "$wt" <<'PY'
import json,sys,shutil,os
src,wt=sys.argv[1],sys.argv[2]
m=json.load(open(os.path.join(src,'meta.json')))
for f,dst in m.get('demo_files',{}).items():
    d=os.path.join(wt,dst)
    if os.path.isdir(d) or dst.endswith('/'): d=os.path.join(d,os.path.basename(f))
    os.makedirs(os.path.dirname(d),exist_ok=True)
    shutil.copy(os.path.join(src,f),d)
open('/tmp/confirm/demo_cmd_%s'%os.path.basename(wt),'w').write(m['demo_cmd'])
PY
demo=$(cat /tmp/confirm/demo_cmd_$label | sed "s#/tmp/wt/C[0-9]*#$wt#g; s#go1.26.8#go#g")
( cd "$wt" && timeout 900 unshare -rn bash -c "ip link set lo up; $demo" ) > /tmp/confirm/$label.demo_with 2>&1; with=$?
git apply -R "$src/patch.diff"
( cd "$wt" && timeout 900 unshare -rn bash -c "ip link set lo up; $demo" ) > /tmp/confirm/$label.demo_without 2>&1; without=$?
res "$out" demo_exit_with_patch $with; res "$out" demo_exit_without_patch $without
git apply "$src/patch.diff"
# remove demo files so they are not analysed
git clean -fdq
# kvlint on the patched scratch tree
caught=""
for id in $(/verif/bin/kvlint list | cut -d' ' -f1); do
  o=$(/verif/bin/kvlint check $id --tier quick --no-write --repo "$wt" --verif /verif 2>&1)
  if echo "$o" | grep -q '^VIOLATION'; then
    caught="$caught $id"
    echo "$o" | grep -A1 '^VIOLATION' | grep 'rule=' | sed "s/^/  [$id] /" >> /tmp/confirm/$label.kvlint
  fi
done
res "$out" kvlint_caught_by "\"$caught\""
[ -f /tmp/confirm/$label.kvlint ] && res "$out" kvlint_reports "$(python3 -c "import json,sys;print(json.dumps(open('/tmp/confirm/$label.kvlint').read().splitlines()[:12]))")"
rm -f /tmp/confirm/$label.kvlint
echo "$label: suite_fails=[$fails] demo_with=$with demo_without=$without caught_by=[$caught]"
