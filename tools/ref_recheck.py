#!/usr/bin/env python3
"""Re-sweep the archived refactorings with the current checker against the current /repo HEAD.

usage: ref_recheck.py [--shard=i/n] [labels...]     (default: all of /verif/refactorings)

Each patch is applied to a scratch worktree of /repo HEAD (under /tmp, removed afterwards) and every registered check is
run against the patched tree; the outcome goes to meta.json: confirmed.rechecked = {head, applies, reports}. A
refactoring that is reported is a false alarm of the checker.
"""
import json, glob, os, re, subprocess, sys
ENV = dict(os.environ, GOFLAGS="-mod=mod", GOPROXY="off", GOSUMDB="off", GOTOOLCHAIN="local", GOWORK="off", PATH="/opt/veriftools/go1.26.8/bin:" + os.environ["PATH"])
KV = os.environ.get("KVLINT", "/verif/bin/kvlint")
args = [a for a in sys.argv[1:] if not a.startswith("--shard=")]
labels = args or sorted(os.path.basename(d) for d in glob.glob("/verif/refactorings/*"))
for a in sys.argv[1:]:
    if a.startswith("--shard="):  # --shard=i/n: every n-th label, for running n of these side by side
        i, n = a[len("--shard="):].split("/")
        labels = [l for k, l in enumerate(labels) if k % int(n) == int(i)]
ids = [l.split()[0] for l in subprocess.check_output(KV + " list", shell=True, text=True).split("\n") if l.strip()]
head = subprocess.check_output("git -C /repo rev-parse --short HEAD", shell=True, text=True).strip()
wt = "/tmp/refrc-%d" % os.getpid()
subprocess.run("git -C /repo worktree prune; git -C /repo worktree add -q --detach %s HEAD" % wt, shell=True, check=True)
bad = 0
try:
    for l in labels:
        d = "/verif/refactorings/" + l
        m = json.load(open(d + "/meta.json"))
        subprocess.run("git checkout -q -- . && git clean -fdq", shell=True, cwd=wt)
        rc = subprocess.run("git apply %s/patch.diff" % d, shell=True, cwd=wt).returncode
        res = {"head": head, "applies": rc == 0, "reports": {}}
        if rc == 0:
            for i in ids:
                p = subprocess.run("%s check %s --tier quick --no-write --repo %s --verif /verif" % (KV, i, wt), shell=True, stdout=subprocess.PIPE, stderr=subprocess.STDOUT, text=True, env=ENV)
                seen = sorted(set(x[0] + ":" + x[2] for x in re.findall(r"rule=(\S+) verdict=(violation|undecided) construct=(\S+)", p.stdout)))
                if seen:
                    res["reports"][i] = seen
        m.setdefault("confirmed", {})["rechecked"] = res
        json.dump(m, open(d + "/meta.json", "w"), indent=1, ensure_ascii=False)
        if not res["applies"] or res["reports"]:
            bad += 1
        print(l, "quiet" if res["applies"] and not res["reports"] else ("NO-APPLY" if not res["applies"] else "REPORTED %s" % res["reports"]), flush=True)
finally:
    subprocess.run("git -C /repo worktree remove --force %s" % wt, shell=True)
print("%d refactorings, %d not quiet" % (len(labels), bad))
