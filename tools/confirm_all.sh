#!/bin/bash
# confirm every delivered, not yet confirmed seed under /tmp/wt-out (sequentially)
for d in /tmp/wt-out/C*/mut*; do
  [ -f "$d/patch.diff" ] && [ -f "$d/meta.json" ] || continue
  [ -f "$d/confirm.json" ] && grep -q kvlint_caught_by "$d/confirm.json" && [ -z "${FORCE:-}" ] && continue
  id=$(basename $(dirname $d)); k=$(basename $d)
  /verif/tools/confirm_seed.sh "$d" "$id-${k#mut}"
done
