# Claims table consumed by mkmanifest.py.
NOT_APPLICABLE = {
}
CLAIMS["C03"] = dict(
    ref="DESIGN.md §4 C03",
    text="Decides, on every path of the current source, structural necessary conditions of codec losslessness and corruption safety: command names written = names replayed (CDC-1); every written arity passes the replay arm's guard and no constant index exceeds the established length (CDC-2); nil arguments are accepted by the parser or never written (CDC-4); every log-derived allocation is dominated by a constant bound (CDC-5); the frame loop refuses start-up only for a bad first marker (CDC-6); vector text is bit-exact (CDC-7); a payload is returned only through the CRC-equal edge and resync accepts only validated candidates (GRD-crc). Byte-for-byte round-trip and which frames survive a given damage pattern are NOT decided.",
    note="Trusted: go/types+go/ssa of x/tools v0.50.0; the bufio/strconv/crc32 standard library; nilness is a conservative may-analysis. Not covered: value equality of round-trips, panics inside the standard library.",
    technique="static analysis: writer/reader table agreement over typed AST + SSA dominance/path queries",
)
CLAIMS["C02"] = dict(
    ref="DESIGN.md §4 C02",
    text="Decides the step ORDER that makes every crash window of the administrative protocols safe, on all control-flow paths: snapshot (BeginSnapshotMode < capture < successful rename onto the snapshot path < log truncate < EndSnapshotMode < re-append, snapshot written to a temp path: ORD-1); compaction and AOFWriter.ReplaceWith (ORD-2); temp files reused across crashes are opened fresh or removed first (ORD-3); a repaired log is fsynced (ORD-7); torn length fields cannot drive allocation (CDC-5). Which state a given (history, crash point) recovers to is NOT decided.",
    note="Trusted: SSA control flow incl. error-edge recognition (`if err != nil`), os/bufio semantics (rename atomic, O_TRUNC). Not covered: journal/apply gap, double crashes, arena/snapshot consistency, value-level outcomes.",
    technique="static analysis: must-precede / must-follow path queries over SSA control flow of the protocol functions",
)
CLAIMS["C14"] = dict(
    ref="DESIGN.md §4 C14",
    text="Decides the shape that keeps acknowledged writes from being dropped: every EndSnapshotMode result is re-journaled and every BeginSnapshotMode is paired with an End on all exits (ORD-4); the lazy writer's Flush/Sync/Close/EndSnapshot arms serve their promise only after a complete non-blocking drain of the write queue (ORD-5); sends to the writer goroutine watch closedCh (ORD-6); Engine.Close stops background work before closing the log and the core (ORD-8). Actual schedules are NOT explored.",
    note="Trusted: SSA of LazyAOFWriter.run incl. closure resolution; Go channel FIFO semantics. Not covered: the journal/apply vs capture race (needs a gate the code does not have; see DESIGN.md), timing.",
    technique="static analysis: typestate + must-pass-through (drain-dominates-effect) over SSA of the writer goroutine and the snapshot/rewrite functions",
)
CLAIMS["C01"] = dict(
    ref="DESIGN.md §4 C01",
    text="Decides four structural necessary conditions of 'everything observable is recoverable': every call of a durable-state mutator outside the storage layers is journaled (before, or on every success path after) or committed by a snapshot, and mutators are called only from the journaling layer — interface calls resolved with VTA (JRN-1/JRN-2); every command the writers emit has a replay arm that accepts its arity and option keys, and nil arguments survive the codec (CDC-1..4); every index-scoped replay arm also finds snapshot-restored indexes, VDROP drops them and deletions reach them (CDC-8). Equality of recovered values is NOT decided.",
    note="Trusted: VTA call graph for interface dispatch; sink table of durable-state mutators (checker/rules_jrn.go) is complete for today's API. Not covered: gob round-trip of the snapshot, ordering inside replay aggregation, arenas on disk.",
    technique="static analysis: effect/layering analysis over SSA + VTA call graph, writer/reader table agreement",
)
CLAIMS["C05"] = dict(
    ref="DESIGN.md §4 C05",
    text="Decides that a rejected request is not in the log: in every journaling engine operation, no error originating after a successful journal write can be returned (JRN-3; one obligation per operation and error origin, so a validation that is moved behind the journal write is a new, unlisted violation). Five genuine instances on today's tree are listed in known_findings.json. State equality before/after a rejection is NOT decided.",
    note="Trusted: SSA error-edge recognition; error origins are the calls/constructed errors whose value can flow to the return after the journal write. Not covered: in-memory partial application (see SIB-5 when built), concurrency between validation and apply.",
    technique="static analysis: path query 'error return reachable after successful journal write' over SSA, keyed by error origin",
)
CLAIMS["C06"] = dict(
    ref="DESIGN.md §4 C06",
    text="Decides the admission and finishing guards of search on all paths: every push onto the layer-search result heap passes the not-Deleted test and (when an allow-list is present) the membership test (GRD-admit); every non-empty result return passes a comparison with k/limit (GRD-cap); results are sorted descending before truncation (GRD-order); fused results are emitted only when the id translation reported found (GRD-xlate); filter and graph scope are intersected and an empty allow-list returns early before any search (GRD-scope). Score values, duplicates across internal ids and behaviour under concurrent writers are NOT decided.",
    note="Trusted: SSA dominance/path queries; roaring.Bitmap And/IsEmpty/Contains semantics. The allow-list scenario is analysed under the assumption 'a non-empty allow-list was supplied'.",
    technique="static analysis: guard-dominates-effect path queries over SSA (must-pass-through with branch polarity)",
)
CLAIMS["C08"] = dict(
    ref="DESIGN.md §4 C08",
    text="Decides that a filter's answer cannot depend on which code path built the secondary indexes or on earlier queries: the live and the restore/compress indexers index the same dynamic types and every indexed type has a removal arm (SIB-1); the parser's operator set equals the evaluator's arms (TBL-ops); != complements against the live-id set whose construction skips Deleted nodes, and the planner splits OR outside / AND inside (GRD-live); query-path code mutates only bitmaps it owns and never returns a stored bitmap (GRD-alias, interprocedural ownership); the unchanged-value shortcut is type-sensitive (SIB-same). The set arithmetic of each arm is NOT decided.",
    note="Trusted: go/types type-switch arms; ownership analysis treats roaring.New/Clone/And/Or results as fresh and anything loaded from a map or field as stored.",
    technique="static analysis: sibling type-switch agreement, constant-table agreement, interprocedural ownership (freshness) of bitmaps over SSA",
)
CLAIMS["C10"] = dict(
    ref="DESIGN.md §4 C10",
    text="Decides the structural conditions that keep the two views and the journal in agreement: the forward and reverse halves of AddEdge/RemoveEdge test the same conditions (soft delete marks the active version, hard delete erases every version, active look-ups agree) and the time filter is created <= T < deleted (SIB-views); the live link/unlink operations and their replay arms feed the edge store from the same command positions, the applied timestamp is the journaled one, and compaction re-emits soft-deleted history (CDC-9); GLINK/GUNLINK writer/reader arity and nil props (CDC-1/2/4). As-of query results and vacuum cut-off arithmetic are NOT decided.",
    note="Trusted: AST condition signatures normalise TargetID/SourceID; SSA data flow from FormatCommand elements / cmd.Args indexes into AddEdge/RemoveEdge arguments.",
    technique="static analysis: sibling condition-signature agreement (AST) + writer/reader argument-role agreement (SSA data flow)",
)
CLAIMS["C11"] = dict(
    ref="DESIGN.md §4 C11",
    text="Decides termination-and-depth shape of every traversal: each enqueue is guarded by a not-visited test that marks the node, expansion is cut at depth >= max, depth is clamped (<= 5) and work lists are consumed first-in-first-out so a recorded depth is a true distance (GRD-bfs); FindPath declares a meeting only on the frontier node being expanded and bounds its rounds; traversePath recurses with depth+1 under a constant cap (GRD-path). Shortest-path optimality and completeness in general are NOT decided (algorithm-specific necessary conditions of today's level-synchronous BFS).",
    note="Trusted: typed AST of the traversal functions; the work list / visited set are recognised by role (a slice appended to inside its consuming loop, a map tested-then-set). A rewrite to a different correct algorithm yields UNDECIDED (check fails with 'anchor lost'), stated in DESIGN.md.",
    technique="static analysis: guard-dominates-enqueue and worklist-discipline checks over the typed AST",
)
CLAIMS["C12"] = dict(
    ref="DESIGN.md §4 C12",
    text="Decides that the runtime delete cascade and the VDEL replay repair cover the same edge directions (in and out), that the cascade goroutine is WaitGroup-registered before it starts and unlinks through the journaling VUnlink, that connection hydration unlinks dead targets (SIB-4), and that soft/hard unlink treat the forward and reverse views alike (SIB-views). Settling time and interleaving with re-link are NOT decided.",
    note="Trusted: constant direction arguments of GetAllRelations; SSA closures of VDelete/VGetConnections.",
    technique="static analysis: sibling agreement of constant direction sets + must-precede (wg.Add before go) over SSA",
)
CLAIMS["C13"] = dict(
    ref="DESIGN.md §4 C13",
    text="Decides the statically visible part of deadlock- and race-freedom over the whole module (may/must-hold lock dataflow on SSA, interprocedural summaries, VTA edges for callbacks and interface calls): every acquisition is released on every path and nothing is released unheld (LCK-1); TryLock results are honoured (LCK-2); the lock-order graph over lock classes has no inversion against the code's own hierarchy and no residual cycle, same-class nesting is ordered (LCK-3/3b, with explicit gate-lock obligations); no instance is re-acquired while held (LCK-4); table-listed guarded fields are accessed only under their guard, caller-must-hold helpers checked at every caller (LCK-5); event fan-out never blocks (LCK-6); metadata read-modify-write keeps read, journal and write-back under one per-node lock (GRD-rmw); sends to the log writer watch closedCh (ORD-6). Atomics/happens-before outside the guarded-field table, liveness and linearizability are NOT decided.",
    note="Trusted: lock classes = (struct type, field path) with arrays/maps collapsed; instance identity only for receiver/parameter-rooted locks; guard table and rank table in checker/rules_lck.go (frozen from the README hierarchy and reading); a loop-acquired lock is not a must-hold (4 table exceptions, each with reason).",
    technique="static analysis: interprocedural may/must lockset dataflow over SSA + VTA call graph, lock-order graph with SCC/rank/gate analysis",
)
CLAIMS["C04"] = dict(
    ref="DESIGN.md §4 C04",
    text="Decides bookkeeping invariants whose breach makes reads wrong only after particular histories: all id-allocation sites use one convention so single and batch inserts reserve disjoint internal ids (GRD-idalloc); the two id maps are maintained as inverses, a reverse-keyed delete checks that the forward entry still points there, tombstones are never re-registered (GRD-idmap); every enumeration admits a node only through its not-Deleted test (GRD-list); every index rebuild site carries auto-links, memory and maintenance config over (SIB-2); batches validate all ids, including repeats inside the batch, before mutating (SIB-5); metadata read-modify-write stays under one per-node lock (GRD-rmw). The state-machine equivalence itself is NOT decided.",
    note="Trusted: typed AST/SSA of pkg/core/hnsw; arithmetic is followed only through +/- of the batch size and constants.",
    technique="static analysis: allocation-convention agreement, paired-store and guard-dominates-effect checks over AST/SSA",
)
CLAIMS["C09"] = dict(
    ref="DESIGN.md §4 C09",
    text="Decides only the bookkeeping that keeps corpus statistics CURRENT and the shape of fusion: DocLengths, TotalDocs, TotalDocLength and AvgFieldLength are updated together in every maintenance site, removal is conditional on the document having been counted, and stripping a node's postings also removes its statistics (GRD-stats); the BM25 constants are k1=1.2, b=0.75 and the scorer uses them with the current statistics (TBL-bm25); alpha is clamped before use, distances are normalised before fusion, and no candidate list is cut to k before the fused scores are sorted (GRD-fusion, GRD-order); live and restore indexers tokenise with the same analyser choice (SIB-1). The formula values, ordering and normalisation arithmetic are NOT decided.",
    note="Trusted: typed AST of pkg/core maintenance functions; PostingList-valued map writes identify posting maintenance.",
    technique="static analysis: co-updated field-group and constant-table checks over the typed AST; SSA path queries for fusion ordering",
)
CLAIMS["C15"] = dict(
    ref="DESIGN.md §4 C15",
    text="Decides the structural part of the decay laws: every declared decay model has a dispatch arm to its own helper, unknown names fall back to exponential, and the unit cases (half-life <= 0, age <= 0 give 1) dominate the dispatch (TBL-models); both decay application sites consult the same six metadata keys, accept the pin flag as bool and string, and multiply the score by the factor (SIB-3); VReinforce stores count+1 and now (GRD-reinforce) inside one per-node lock hold (GRD-rmw). Bounds, monotonicity and half-life values of the real-valued functions are NOT decided.",
    note="Trusted: typed AST of search_utils.go / ops.go; constant evaluation via go/constant.",
    technique="static analysis: exhaustiveness of constant tables, sibling key-set agreement, guard-dominates-dispatch over SSA",
)
CLAIMS["C16"] = dict(
    ref="DESIGN.md §4 C16",
    text="Decides the shape of authorisation for EVERY registered route at once: the route table (WEB-1); per handler, the effect class from the call graph (mutating / key management); the middleware's role decision extracted from its SSA as decision paths over (method, path) tests and evaluated three-valuedly on each route pattern, wildcards being attacker-chosen — required role >= effect for all instantiations (WEB-3); HasAccess has a denying test for every role the middleware can require (SIB-roles); the inner handler is reached only via the root-token equality or VerifyToken success and HasAccess==true for every extracted namespace; VerifyToken pins ECDSA, requires Valid, and returns a policy only after parsing the token and consulting the revocation list in this call (WEB-auth); the middleware authorises exactly the request locations handlers address indexes through (WEB-4); auth state is written only through journaled engine calls (JRN-2). JWT library correctness and expiry arithmetic are NOT decided.",
    note="Trusted: VTA call graph for handler effects; the decision-path extraction understands ==, HasPrefix, HasSuffix and last-segment tests on r.Method / r.URL.Path (anything else is an opaque test, both branches feasible). Two genuine instances (RAG pipeline routes) are listed in known_findings.json.",
    technique="static analysis: route-table × call-graph effect × policy-model (predicate abstraction of the middleware's SSA, three-valued evaluation on route patterns); taint-style provenance of index arguments",
)
CLAIMS["C19"] = dict(
    ref="DESIGN.md §4 C19",
    text="Decides request-discipline shapes for every registered handler: a decode error is tested, answered with 4xx and the handler returns before any engine call, and the shared strict decoder never turns an error into success (WEB-5); request-derived k, batch size and vector dimension (also per batch item) pass a comparison with the published limit on every path before the engine call, the body-size limit wraps the body-reading auth layer and recovery is outermost (WEB-6); no 4xx is written after a mutating engine call succeeded (WEB-7); an index name becomes a filesystem path only after the validator that rejects separators and dot segments (WEB-8, also in the replay arms); every distance kernel checks lengths before indexing (GRD-kernel, shared with C18). Absence of panics in general and response well-formedness are NOT decided.",
    note="Trusted: handlers are the functions registered in the route table; request data = fields of locally decoded structs; constant HTTP statuses. One table exception (optional body of handleEndSession).",
    technique="static analysis: per-handler SSA path queries (error-edge → 4xx → return; limit-test dominates call), taint-style sanitizer-dominates-sink for path confinement",
)

CLAIMS["C18"] = dict(
    ref="DESIGN.md §4 C18",
    text="Decides the structural clauses of storage/kernel faithfulness on every path: each function registered in a kernel table (including init() overrides) reports an error on the lengths-differ edge before any element is read (GRD-kernel); kernels never do arithmetic in 8/16-bit integer types and Euclidean kernels never use the self-product (norm-expansion) form (GRD-widen); every float→int8 conversion is fed by a two-sided clamp inside the int8 range (GRD-clamp); per precision, slot size, arena code, byte-cast helper, vecData arm and kernel field agree in all 24 precision switches (TBL-prec); the arena never lets a window into slotTable/freeSlots escape unless it re-points the field at a fresh array first (GRD-own); every free-list push is paired with a slot-table store and pushes that id's current slot, every pop/fresh slot is consumed before return, and relocation re-validates, copies first and updates the node pointer (GRD-slot); slot state, chunks and AbsMax are accessed under their locks (LCK-5, arena/quantiser classes). Numeric error bounds, kernel-vs-reference agreement within tolerance, symmetry, ranking perturbation, and what a reader that already holds a pointer sees during relocation are NOT decided.",
    note="Trusted: go/ssa value flow through slices/append/phi (append's first operand may alias, its variadic operand does not); Go's memory model for locks. Euclidean difference-form rule flags one specific unstable idiom only.",
    technique="static analysis: SSA guard-dominance and path queries over kernels/quantiser/arena, alias (backing-array provenance) tracking for slice escapes, typed-AST switch-arm agreement, lockset dataflow",
)

CLAIMS["C17"] = dict(
    ref="DESIGN.md §4 C17",
    text="Decides the shape of the gateway's admission decisions on every path of AIProxy.ServeHTTP and its helpers: the engine's scored search and the gateway agree on the unit (distance→similarity applied once, converted back once) before the value is compared with firewall_threshold / cache_threshold, and block/hit is returned only on the distance<threshold edge (UNI-1); every hand-off to the upstream reverse proxy and every cached reply lies behind the not-blocked edge of the deny-pattern check (given the whole extracted prompt) and, when an embedding is available, of the semantic check — the only exemption is an empty prompt (GRD-fw); patterns are compiled case-insensitively on every path, none is dropped, a match always blocks (GRD-pattern); a hit passes the TTL test, the cache is consulted only for non-streaming requests, replied from only on hit, and filled only with status-200 answers (GRD-cache); writer and readers of a cache entry agree on keys and JSON-stable types (SIB-cachekeys); invalidation deletes only behind the whole-id citation test (GRD-inval). What the regexes match, embedding values, nearest-neighbour exactness, and whether upstream is contacted at run time are NOT decided.",
    note="Trusted: SSA control flow and the recognised conversion forms 1/(1+d), 1/s−1, (1−s)/s; scenario assumptions (firewall enabled, embedder configured and successful, non-empty vector, TTL>0, created_at present) are encoded as blocked edges and listed in the evidence. RAG query rewriting (the embedded text may be an LLM rewrite of the prompt) is outside the check.",
    technique="static analysis: SSA guard-dominance path queries over the request pipeline, unit (conversion-parity) tracing across the engine/gateway boundary, writer/reader key-type agreement",
)

CLAIMS["C20"] = dict(
    ref="DESIGN.md §4 C20",
    text="Decides structural necessary conditions of totality and boundedness: the recursive splitter gives back what it removes — the separator is partitioned into a whitespace joiner and a kept content part that is put in front of every piece after the first (TBL-sep); only text whose length entered the ChunkSize comparison is added to a chunk, every built-in separator table ends with the character-level fallback, and the overlap tail is chosen knowing the next piece's length (GRD-size); recursion runs on a strictly shorter separator list, FixedSizeChunker's step is positive on every path into its loop, the tail loop shrinks (GRD-progress); assembleContext selects a chunk only on the within-budget edge and counts it (GRD-budget); expandGraphBFS expands only below depth limit and node cap, enqueues only unvisited neighbours after marking them, and advances its queue head on every iteration (GRD-expand); negations/connectives are protected before any removal table is consulted and no table lists one (TBL-stop); the text functions contain no map iteration, goroutine, clock or randomness (EFF-det); every index/slice expression of tokeniser, stemmers, compressor, splitter and chunker is in bounds — its bounds check is eliminated by the Go compiler's prove pass, or covered by a length lower bound derived from the code's own guards (HasSuffix/HasPrefix, len comparisons, constant re-slicing, []rune of a non-empty string, the chunker's clamped window), or one of two hand-argued table exceptions (GRD-slice). Other panic sources (nil maps, conversions, the regexp engine), the exact chunk-length bound as arithmetic, and token counts of the assembled text (joiners are not counted by the code) are NOT decided.",
    note="Trusted: SSA value flow; the recognised shapes (strings.Split + mergeSplits, sep[:n]/sep[n:], TrimLeftFunc(unicode.IsSpace)). max_expansion_nodes is documented as a parameter of the graph strategy, so the greedy/density strategies (bounded by k seeds × one level) are not required to test it.",
    technique="static analysis: SSA guard-dominance and value-provenance checks over splitter/chunker/retriever, constant-table checks over typed AST, effect (non-determinism source) scan over the static call tree, compiler bounds-check-elimination report combined with a length-lower-bound dataflow",
)

CLAIMS["C07"] = dict(
    ref="DESIGN.md §10.3 C07",
    text="Decides only the structural conditions behind the FIRST clause (an index of at most 2·M vectors has a fully connected base layer, so search is exact), on every insertion and repair path: the neighbour cap is h.mMax0 on the `level == 0` edge and h.m otherwise at every site that links or prunes, mMax0 is stored once as 2·m, and every call of selectNeighbors receives such a per-level cap (SIB-cap); selectNeighbors returns its candidates unchanged when they fit under the cap, and the layer search raises its working ef to at least k (GRD-keep); every caller hands selectNeighbors a list ordered by distance — a layer-search result or a slice sorted after its last append (SIB-sorted, the precondition of the neighbour heuristic on which the recall of every build/repair path rests). The recall floor on larger indexes, its stability under deletes/vacuum/refine/compression/restart, tie handling and exactness itself are numeric outcomes of a randomised construction and are NOT decided.",
    note="A narrow claim: these are necessary conditions of the mechanism the property names, not evidence of recall. Bidirectional linking and entry-point re-election after vacuum are not checked (their shapes differ per insertion path; no sound common rule was found).",
    technique="static analysis: sibling agreement of the per-level cap over all SSA sites that select or prune neighbours, guard shape of the keep-all and ef>=k tests",
)
