# Claims table consumed by mkmanifest.py.
NOT_APPLICABLE = {
    "C07": "recall floors and small-index exactness are numeric outcomes of a randomised construction over arbitrary data; no structural necessary condition exists beyond C06's admission guards (DESIGN.md §5)",
}
CLAIMS["C03"] = dict(
    ref="DESIGN.md §4 C03",
    text="Decides, on every path of the current source, structural necessary conditions of codec losslessness and corruption safety: command names written = names replayed (CDC-1); every written arity passes the replay arm's guard and no constant index exceeds the established length (CDC-2); nil arguments are accepted by the parser or never written (CDC-4); every log-derived allocation is dominated by a constant bound (CDC-5); the frame loop refuses start-up only for a bad first marker (CDC-6); vector text is bit-exact (CDC-7); a payload is returned only through the CRC-equal edge and resync accepts only validated candidates (GRD-crc). Byte-for-byte round-trip and which frames survive a given damage pattern are NOT decided.",
    note="Trusted: go/types+go/ssa of x/tools v0.50.0; the bufio/strconv/crc32 standard library; nilness is a conservative may-analysis. Not covered: value equality of round-trips, panics inside the standard library.",
    technique="static analysis: writer/reader table agreement over typed AST + SSA dominance/path queries",
)
